package cmdmodel

import (
	"fmt"
	"strings"
)

// Rule 12 - external programs (OPTIONAL: nothing in this file is reachable unless the caller installs
// Options.External; without the hook every construct below is unmodelled exactly as before).
//
// The model itself knows no program. The caller supplies a function from (command line, standard input) to
// (standard output bytes, exit status); the model only decides WHEN a program is started, with WHICH command
// line, what its standard input is and where its standard output goes - for the three shapes the converter's
// command calls emit, and only for command lines over a cmd-neutral alphabet:
//
//	neutral text   letters, digits, blank, '.', '_', '-' and double quotes (balanced, never two in a row).
//	               None of these characters has a meaning to any phase of cmd.exe besides the quote's
//	               "protect the following special characters" - of which there are none in a neutral text -
//	               so every re-parse of the text (CALL's second pass, the child cmd.exe of a pipe side, the
//	               two cmd.exe behind FOR /F ('cmd /C ...')) leaves it as it is. Anything else is refused.
//
//	12a  call NAME ARGS            (batch file, after delayed expansion of the arguments)
//	     NAME is not a label and not an internal command: the program runs with the command line NAME ARGS,
//	     its output goes to the script's standard output, ERRORLEVEL becomes its exit status.
//	12b  S1 | S2 [| S3 ...]        (batch file; every side a simple command: call NAME ARGS or NAME ARGS)
//	     cmd.exe performs delayed expansion of a simple (non-block) pipe side in the batch context and hands
//	     the resulting text to a child cmd.exe (cmd /S /D /c" text"), which parses it again - harmless for a
//	     neutral text, refused otherwise. Each program's standard output is the next one's standard input,
//	     the last one writes to the script's standard output; ERRORLEVEL becomes the exit status of the LAST
//	     program. A side inside a FOR body, with redirection, or a block / IF / FOR as a side: refused.
//	12c  for /f "delims=" %%i in ('cmd /V:ON /C "TEXT"') do ...
//	     FOR /F runs the quoted command in a child cmd.exe (cmd /c cmd /V:ON /C "TEXT"). In that (outer)
//	     child delayed expansion is off and every special character of TEXT must lie inside quotes (quote
//	     state is tracked; otherwise refused). The inner cmd.exe applies the documented quote rule of /C:
//	     the first character after /C is a quote and the text is not the "exactly two quotes, no special
//	     character between them" case, so the first and the LAST quote are removed. TEXT is then a command
//	     line: pipelines of programs separated by '&' (sequential execution), '|' binding tighter than '&';
//	     the only internal command accepted is  echo !errorlevel!  (delayed expansion is on because of
//	     /V:ON, and it happens when the echo runs, i.e. after the preceding commands): it prints the exit
//	     status of the last program of the preceding pipeline, CR LF. '&&', '||', redirection,
//	     parentheses, '^', '%', any other '!': refused. The concatenated output is what FOR /F reads (rule 9:
//	     split at LF, one CR dropped, empty lines and lines starting with ';' skipped).
//
// What the documentation does not pin down and the model therefore refuses: a program named like an
// internal command, a variable named ERRORLEVEL in the environment (it would shadow the dynamic value in the
// child), a non-empty standard input of the script (the first program of a chain would compete for it with
// nothing the model can order), FOR variables inside a pipe side.

// ExternalCall describes one start of an external program.
type ExternalCall struct {
	// CommandLine is the program name followed by its arguments as cmd.exe hands them to the program
	// (quotes included, blanks at both ends removed): splitting it into argv is the program's business
	// (SplitCommandLine implements the C runtime's rules for neutral texts).
	CommandLine string
	// Stdin is everything the program can read from its standard input.
	Stdin string
}

// External is the caller's model of the programs: ok=false means "no such program / not modelled" and makes
// the run unmodelled.
type External func(c ExternalCall) (stdout string, exit int, ok bool)

var internalCommands = map[string]bool{
	"assoc": true, "break": true, "call": true, "cd": true, "chdir": true, "cls": true, "color": true, "copy": true,
	"date": true, "del": true, "dir": true, "dpath": true, "echo": true, "endlocal": true, "erase": true, "exit": true,
	"for": true, "ftype": true, "goto": true, "if": true, "keys": true, "md": true, "mkdir": true, "mklink": true,
	"move": true, "path": true, "pause": true, "popd": true, "prompt": true, "pushd": true, "rd": true, "rem": true,
	"ren": true, "rename": true, "rmdir": true, "set": true, "setlocal": true, "shift": true, "start": true,
	"time": true, "title": true, "type": true, "ver": true, "verify": true, "vol": true, "cmd": true,
}

func neutralChar(c byte) bool {
	return c >= 'a' && c <= 'z' || c >= 'A' && c <= 'Z' || c >= '0' && c <= '9' || c == ' ' || c == '.' || c == '_' || c == '-'
}

// neutralText reports whether s consists of neutral characters and balanced, never adjacent quotes.
func neutralText(s string) bool {
	q := 0
	for i := 0; i < len(s); i++ {
		c := s[i]
		if c == '"' {
			if i+1 < len(s) && s[i+1] == '"' {
				return false
			}
			q++
			continue
		}
		if !neutralChar(c) {
			return false
		}
	}
	return q%2 == 0
}

// SplitCommandLine splits a neutral command line into argv the way the Microsoft C runtime (and
// CommandLineToArgvW) do for such texts: arguments are separated by blanks outside quotes, the quotes are
// removed. ok=false for anything whose treatment differs between runtimes or that is not neutral
// (backslashes, two quotes in a row, an unbalanced quote).
func SplitCommandLine(s string) (argv []string, ok bool) {
	if !neutralText(s) {
		return nil, false
	}
	var cur []byte
	have, inQ := false, false
	for i := 0; i < len(s); i++ {
		c := s[i]
		switch {
		case c == '"':
			inQ = !inQ
			have = true
		case c == ' ' && !inQ:
			if have {
				argv = append(argv, string(cur))
				cur, have = cur[:0], false
			}
		default:
			cur = append(cur, c)
			have = true
		}
	}
	if have {
		argv = append(argv, string(cur))
	}
	return argv, true
}

// startProgram runs one program through the hook.
func (in *interp) startProgram(cmdline, stdin, where string) (string, int) {
	line := strings.Trim(cmdline, " \t")
	if !neutralText(line) {
		in.unmodelled("rule 12: %s: command line %q is not cmd-neutral (letters, digits, blank, . _ - and balanced quotes)", where, line)
	}
	name := line
	if k := strings.IndexAny(name, " \""); k >= 0 {
		name = name[:k]
	}
	if name == "" {
		in.unmodelled("rule 12: %s: command line %q does not start with a program name", where, line)
	}
	if internalCommands[strings.ToLower(strings.TrimRight(name, "."))] {
		in.unmodelled("rule 12: %s: %q is an internal command of cmd.exe", where, name)
	}
	in.step()
	out, exit, ok := in.external(ExternalCall{CommandLine: line, Stdin: stdin})
	if !ok {
		in.unmodelled("rule 12: %s: the caller's hook does not model the program %q", where, name)
	}
	in.externals++
	return out, exit
}

func (in *interp) checkScriptStdin(where string) {
	if in.stdin != "" {
		in.unmodelled("rule 12: %s: an external program could read the script's non-empty standard input", where)
	}
}

// callExternal is rule 12a; a is the expanded argument text of CALL (not a label).
func (in *interp) callExternal(a string) {
	if strings.IndexByte(a, '%') >= 0 {
		in.unmodelled("rule 12a: %% in the arguments of call PROGRAM (second percent pass)")
	}
	if len(in.forOrder) > 0 {
		in.unmodelled("rule 12a: call PROGRAM inside a FOR body")
	}
	in.checkScriptStdin("rule 12a")
	out, exit := in.startProgram(a, "", "call PROGRAM")
	in.out.WriteString(out)
	in.errlevel = exit
}

// pipeNode is  S1 | S2 | ...  (only built when the hook is installed).
type pipeNode struct{ stages []node }

func joinPipe(left, right node) node {
	if p, ok := left.(pipeNode); ok {
		return pipeNode{append(append([]node{}, p.stages...), right)}
	}
	return pipeNode{[]node{left, right}}
}

// execPipe is rule 12b.
func (in *interp) execPipe(p pipeNode) ctl {
	if len(in.forOrder) > 0 {
		in.unmodelled("rule 12b: pipe inside a FOR body")
	}
	in.checkScriptStdin("rule 12b")
	data, status := "", 0
	for i, s := range p.stages {
		c, ok := s.(simpleCmd)
		if !ok {
			in.unmodelled("rule 12b: a side of a pipe that is not a simple command (block, IF, FOR, label)")
		}
		in.checkEcho(c.silent)
		if c.redir {
			in.unmodelled("rule 12b: redirection on a side of a pipe")
		}
		name := in.expand(c.name)
		args := in.expand(c.args)
		line := name + args
		if strings.EqualFold(name, "call") {
			line = args
			if strings.HasPrefix(strings.TrimLeft(args, " \t"), ":") {
				in.unmodelled("rule 12b: call :label as a side of a pipe")
			}
		}
		data, status = in.startProgram(line, data, fmt.Sprintf("side %d of a pipe", i+1))
	}
	in.out.WriteString(data)
	in.errlevel = status
	return ctl{}
}

// runChildCmd is rule 12c; cmdline is the text between the single quotes of the IN clause after expansion.
func (in *interp) runChildCmd(cmdline string) []string {
	const where = "rule 12c: for /f over ('cmd ...')"
	if _, shadow := in.env["ERRORLEVEL"]; shadow {
		in.unmodelled("%s: a variable named ERRORLEVEL is defined", where)
	}
	in.checkScriptStdin(where)
	f := strings.Fields(cmdline)
	if len(f) < 4 || !strings.EqualFold(f[0], "cmd") || !strings.EqualFold(f[1], "/V:ON") || !strings.EqualFold(f[2], "/C") {
		in.unmodelled("%s: only  cmd /V:ON /C \"...\"  is modelled, got %q", where, cmdline)
	}
	k := strings.Index(cmdline, f[2]) + len(f[2])
	rest := strings.TrimLeft(cmdline[k:], " \t")
	if len(rest) < 2 || rest[0] != '"' || rest[len(rest)-1] != '"' {
		in.unmodelled("%s: the text after /C does not start and end with a quote: %q", where, rest)
	}
	// the outer child (delayed expansion off): every special character must be protected by quotes
	inQ := false
	quotes := 0
	for i := 0; i < len(rest); i++ {
		c := rest[i]
		switch {
		case c == '"':
			inQ = !inQ
			quotes++
		case c == '%' || c == '^' || c == '\n' || c == '\r' || c == '\t':
			in.unmodelled("%s: %q in the command text", where, string(rune(c)))
		case !inQ && !neutralChar(c):
			in.unmodelled("%s: %q outside quotes is seen by the first child cmd.exe", where, string(rune(c)))
		}
	}
	if inQ {
		in.unmodelled("%s: unbalanced quotes in %q", where, rest)
	}
	text := rest[1 : len(rest)-1]
	if quotes == 2 && !strings.ContainsAny(text, "&<>()@^|") {
		in.unmodelled("%s: exactly two quotes and no special character between them (the other quote rule of /C may apply)", where)
	}
	// the inner cmd.exe: TEXT is a command line, delayed expansion on
	var commands [][]string // command -> pipeline stages
	cur := []string{""}
	inQ = false
	for i := 0; i < len(text); i++ {
		c := text[i]
		if c == '"' {
			inQ = !inQ
		}
		if inQ || c == '"' {
			if c != '"' && !neutralChar(c) {
				in.unmodelled("%s: %q inside a quoted argument", where, string(rune(c)))
			}
			cur[len(cur)-1] += string(c)
			continue
		}
		switch c {
		case '&', '|':
			if i+1 < len(text) && text[i+1] == c {
				in.unmodelled("%s: %s conditional execution", where, string([]byte{c, c}))
			}
			if c == '|' {
				cur = append(cur, "")
			} else {
				commands = append(commands, cur)
				cur = []string{""}
			}
		case '!':
			cur[len(cur)-1] += "!"
		default:
			if !neutralChar(c) {
				in.unmodelled("%s: %q in the command text", where, string(rune(c)))
			}
			cur[len(cur)-1] += string(c)
		}
	}
	commands = append(commands, cur)
	var out strings.Builder
	level := 0
	for _, stages := range commands {
		if len(stages) == 1 && strings.IndexByte(stages[0], '!') >= 0 {
			if t := strings.Trim(stages[0], " "); !strings.EqualFold(t, "echo !errorlevel!") {
				in.unmodelled("%s: delayed expansion in %q (only  echo !errorlevel!  is modelled)", where, t)
			}
			in.step()
			fmt.Fprintf(&out, "%d\r\n", level)
			continue
		}
		data := ""
		for i, st := range stages {
			if strings.IndexByte(st, '!') >= 0 {
				in.unmodelled("%s: '!' in the command line of a program", where)
			}
			if strings.Trim(st, " ") == "" {
				in.unmodelled("%s: empty command", where)
			}
			data, level = in.startProgram(st, data, fmt.Sprintf("%s, program %d of a chain", where, i+1))
		}
		out.WriteString(data)
	}
	s := out.String()
	if strings.IndexByte(s, 0x1a) >= 0 || strings.IndexByte(s, 0) >= 0 {
		in.unmodelled("%s: output containing NUL or Ctrl-Z", where)
	}
	return splitLines(s)
}

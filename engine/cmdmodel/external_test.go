package cmdmodel

import (
	"fmt"
	"strings"
	"testing"
)

// testProgs: "say" prints its arguments one per line in brackets; "up" upper-cases its input; "mute" prints
// nothing; "glue" prints x without a line end; an argument of the form xN makes the exit status N.
func testProgs(log *[]string) External {
	return func(c ExternalCall) (string, int, bool) {
		argv, ok := SplitCommandLine(c.CommandLine)
		if !ok || len(argv) == 0 {
			return "", 0, false
		}
		*log = append(*log, fmt.Sprintf("%q<%q", argv, c.Stdin))
		st := 0
		for _, a := range argv[1:] {
			var n int
			if _, err := fmt.Sscanf(a, "x%d", &n); err == nil {
				st = n
			}
		}
		switch argv[0] {
		case "say":
			out := ""
			for _, a := range argv[1:] {
				out += "[" + a + "]\r\n"
			}
			return out, st, true
		case "up":
			return strings.ToUpper(c.Stdin), st, true
		case "mute":
			return "", st, true
		case "glue":
			return "x", st, true
		}
		return "", 0, false
	}
}

const achHelper = `goto :_eo__ach
:_ach
set "_h="
set "_te="
for /f "delims=" %%i in ('cmd /V:ON /C "!_fa0! & echo ^!errorlevel^!"') do (
if defined _h set "_h=!_h!!LF!"
set "_h=!_h!!_te!"
set _te=%%i
)
exit /B
:_eo__ach`

func achScript(lines ...string) string {
	all := append([]string{"(set LF=^", "", ")"}, strings.Split(achHelper, "\n")...)
	return bat(append(all, lines...)...)
}

func TestExternalHookAbsentKeepsEverythingUnmodelled(t *testing.T) {
	check(t, "call", bat("call say a"), Options{}, want{unm: "rule 11: call of something that is not a label"})
	check(t, "pipe", bat("call say a | up"), Options{}, want{unm: "rule 11: pipe"})
	check(t, "capture", achScript(`set "_fa0=say a"`, "call :_ach", "echo !_h!"), Options{}, want{unm: `rule 11: for /f over the output of "cmd"`})
}

func TestExternalCallAndPipe(t *testing.T) {
	var log []string
	o := Options{External: testProgs(&log)}
	check(t, "call", bat(`call say a "b c" x3`, "echo !errorlevel!"), o, want{out: "[a]\n[b c]\n[x3]\n3\n", exit: 3})
	check(t, "pipe", bat(`set "v=q7"`, `call say a !v! x5 | up`, "echo !errorlevel!", `call say a | up x9 | up`, "echo !errorlevel!"), o,
		want{out: "[A]\n[Q7]\n[X5]\n0\n[A]\n0\n"})
	check(t, "status of the last side", bat(`call say a | up x9`, "echo !errorlevel!"), o, want{out: "[A]\n9\n", exit: 9})
	want3 := `["say" "a" "q7" "x5"]<""`
	found := false
	for _, l := range log {
		if l == want3 {
			found = true
		}
	}
	if !found {
		t.Errorf("argv log %q lacks %s", log, want3)
	}
}

func TestExternalCapture(t *testing.T) {
	var log []string
	o := Options{External: testProgs(&log)}
	// two captured calls in one run: the second must not see anything of the first
	check(t, "two captures", achScript(
		`set "_fa0=say one "a b" x3"`, "call :_ach", `echo [!_h!] !_te!`,
		`set "_fa0=say two | up"`, "call :_ach", `echo [!_h!] !_te!`,
		`set "_fa0=mute"`, "call :_ach", `echo [!_h!] !_te!`,
	), o, want{out: "[[one]\n[a b]\n[x3]] 3\n[[TWO]] 0\n[] 0\n"})
	// output without a final line end: the status line is glued to it (that is what the helper's text does)
	check(t, "glued", achScript(`set "_fa0=glue x4"`, "call :_ach", `echo [!_h!] !_te!`), o, want{out: "[] x4\n"})
}

func TestExternalRefusals(t *testing.T) {
	var log []string
	o := Options{External: testProgs(&log)}
	check(t, "special character", bat(`call say a;b`), o, want{unm: "not cmd-neutral"})
	check(t, "star", bat(`call say *`), o, want{unm: "not cmd-neutral"})
	check(t, "percent", bat(`call say 100%%`), o, want{unm: "rule 12a"})
	check(t, "adjacent quotes", bat(`call say "a""b"`), o, want{unm: "not cmd-neutral"})
	check(t, "internal", bat(`call echo a`), o, want{unm: "internal command"})
	check(t, "unknown program", bat(`call nosuch a`), o, want{unm: "does not model the program"})
	check(t, "block side", bat(`(echo a) | up`), o, want{unm: "rule 12b"})
	check(t, "stdin", bat(`call say a`), Options{External: testProgs(&log), Stdin: "x"}, want{unm: "standard input"})
	check(t, "capture of special text", achScript(`set "_fa0=say a>b"`, "call :_ach"), o, want{unm: "rule 12c"})
	check(t, "capture with && ", achScript(`set "_fa0=say a && say b"`, "call :_ach"), o, want{unm: "rule 12c"})
	check(t, "errorlevel shadowed", achScript(`set "errorlevel=7"`, `set "_fa0=say a"`, "call :_ach"), o, want{unm: "ERRORLEVEL"})
}

package cmdmodel

import (
	"strings"
)

// AST of one logical line (phase 2 output). All strings are phase-2 text: %-expanded, unquoted
// carets consumed, quotes kept; FOR variables and !-expansion are applied when a command runs.

type node interface{}

type simpleCmd struct {
	name   string // command token as written
	args   string // text after the command token up to the terminator, leading blank included
	silent bool   // @ prefix
	redir  bool   // a redirection was attached (unmodelled when executed)
}

type labelNode struct{ text string }

type blockNode struct{ list []node }

type seqNode struct{ list []node }

type ifNode struct {
	not, insens bool
	kind        string // "cmp", "defined", "exist", "errorlevel"
	left, op    string
	right       string
	then, els   node
	silent      bool
}

type forNode struct {
	opts   string // text of the options string without quotes ("" if none)
	hasF   bool
	v      byte
	set    string // text between the parentheses of the IN clause
	body   node
	silent bool
}

type unsupNode struct{ reason string }

type parser struct {
	in  *interp
	buf []byte
	i   int
}

func isBlank(c int) bool { return c == ' ' || c == '\t' }

// isDelim: token delimiters of phase 2 besides blank.
func isDelim(c int) bool {
	return c == ' ' || c == '\t' || c == ',' || c == ';' || c == '=' || c == 0x0b || c == 0x0c || c == 0xff
}

// more appends the next physical line (phase 1 applied) to the buffer.
func (p *parser) more() bool {
	in := p.in
	if in.pos >= len(in.src) {
		return false
	}
	in.step()
	rest := in.src[in.pos:]
	var line string
	if k := strings.IndexByte(rest, '\n'); k >= 0 {
		line = rest[:k+1]
		in.pos += k + 1
	} else {
		line = rest
		in.pos = len(in.src)
	}
	if strings.IndexByte(line, 0x1a) >= 0 {
		in.unmodelled("rule 1: Ctrl-Z in the script")
	}
	line = strings.ReplaceAll(line, "\r", "") // phase 1.5: every CR is dropped
	nl := strings.HasSuffix(line, "\n")
	if nl {
		line = line[:len(line)-1]
	}
	if len(line) > 8000 {
		in.unmodelled("rule 1: line longer than cmd.exe's 8191 character limit allows safely")
	}
	line = in.percentExpand(line)
	if len(line) > maxText {
		in.unmodelled("rule 1: line longer than cmd.exe's 8191 character limit allows safely")
	}
	if strings.IndexByte(line, '\n') >= 0 {
		in.unmodelled("rule 2: %%-expansion produced a line feed (cmd truncates the line there)")
	}
	p.buf = append(p.buf, line...)
	if nl {
		p.buf = append(p.buf, '\n')
	}
	return true
}

func (p *parser) peek() int {
	if p.i >= len(p.buf) {
		return -1
	}
	return int(p.buf[p.i])
}

func (p *parser) peekAt(k int) int {
	if p.i+k >= len(p.buf) {
		return -1
	}
	return int(p.buf[p.i+k])
}

func (p *parser) skipBlanks() {
	for isBlank(p.peek()) {
		p.i++
	}
}

func (p *parser) skipDelims() {
	for isDelim(p.peek()) {
		p.i++
	}
}

// readLogical reads and parses the next logical line at in.pos (rule 1). ok=false at end of file.
func (in *interp) readLogical() (n node, ok bool) {
	p := &parser{in: in}
	if !p.more() {
		return nil, false
	}
	p.skipDelims()
	if c := p.peek(); c < 0 || c == '\n' {
		return seqNode{}, true
	}
	n = p.parseSequence(0)
	p.skipBlanks()
	switch c := p.peek(); {
	case c < 0:
	case c == '\n':
		p.i++
		if p.i != len(p.buf) {
			panic("cmdmodel: logical line ended before the buffer did")
		}
	default:
		in.unmodelled("rule 1: unexpected %q after a complete command", string(rune(c)))
	}
	return n, true
}

// parseSequence parses  stmt ( & stmt )*  up to LF, end of buffer or (depth>0) an unquoted ')'.
func (p *parser) parseSequence(depth int) node {
	var list []node
	for {
		st := p.parseStatement(depth)
		list = append(list, st)
		p.skipBlanks()
		c := p.peek()
		for c == '|' && p.peekAt(1) != '|' && p.in.external != nil {
			// rule 12b (only with the external-program hook): '|' binds tighter than '&'
			p.i++
			right := p.parseStatement(depth)
			list[len(list)-1] = joinPipe(list[len(list)-1], right)
			p.skipBlanks()
			c = p.peek()
		}
		if c == '&' {
			if p.peekAt(1) == '&' {
				p.i += 2
				p.parseSequence(depth)
				list = append(list, unsupNode{"rule 11: && conditional execution"})
				break
			}
			switch st.(type) {
			case ifNode, forNode:
				p.in.unmodelled("rule 5: & after an IF/FOR on one line (scope of the trailing command)")
			}
			p.i++
			p.skipDelims()
			continue
		}
		if c == '|' {
			if p.peekAt(1) == '|' {
				p.i += 2
			} else {
				p.i++
			}
			p.parseSequence(depth)
			list[len(list)-1] = unsupNode{"rule 11: pipe or || conditional execution"}
			break
		}
		break
	}
	if len(list) == 1 {
		return list[0]
	}
	return seqNode{list}
}

func (p *parser) parseStatement(depth int) node {
	in := p.in
	p.skipDelims()
	silent := false
	for p.peek() == '@' {
		silent = true
		p.i++
		p.skipDelims()
	}
	c := p.peek()
	switch {
	case c < 0 || c == '\n':
		return seqNode{}
	case c == '(':
		p.i++
		return p.parseBlock(depth + 1)
	case c == ')':
		if depth == 0 {
			// rule 6: outside any block (execution fell into the remainder of a block that a GOTO abandoned)
			// a ')' that begins a command and is followed by a delimiter, '(' or the line end acts like REM:
			// the rest of the line - e.g. ") else if !x! equ 1 (" - is ignored and opens no block.
			// Lines with redirection, pipes, '&' or '^' after it are not guessed.
			nx := p.peekAt(1)
			if !(nx < 0 || nx == '\n' || isDelim(nx) || nx == '(') {
				in.unmodelled("rule 6: ')' glued to other text is executed outside any block")
			}
			start := p.i
			for p.peek() >= 0 && p.peek() != '\n' {
				p.i++
			}
			if strings.ContainsAny(string(p.buf[start:p.i]), "^&|<>") {
				in.unmodelled("rule 6: a line starting with ')' and containing ^ & | < > is executed outside any block")
			}
			in.strayParens++
			return seqNode{}
		}
		in.unmodelled("rule 1: empty command before ')'")
	case c == ':':
		start := p.i
		for p.peek() >= 0 && p.peek() != '\n' {
			if p.peek() == '^' && (p.peekAt(1) == '\n' || p.peekAt(1) < 0) {
				in.unmodelled("rule 7: label line ending in ^")
			}
			p.i++
		}
		return labelNode{string(p.buf[start:p.i])}
	case c == '&' || c == '|' || c == '<' || c == '>':
		in.unmodelled("rule 11: command starting with %q", string(rune(c)))
	}

	// command token
	start := p.i
	for {
		c := p.peek()
		if c < 0 || c == '\n' || isDelim(c) || c == '(' || c == ')' || c == '&' || c == '|' || c == '<' || c == '>' || c == '"' {
			break
		}
		if c == '^' {
			in.unmodelled("rule 1: ^ inside a command name")
		}
		p.i++
	}
	name := string(p.buf[start:p.i])
	if name == "" {
		in.unmodelled("rule 1: command starting with %q", string(rune(p.peek())))
	}
	switch strings.ToLower(name) {
	case "if":
		n := p.parseIf(depth)
		n.silent = silent
		return n
	case "for":
		n := p.parseFor(depth)
		n.silent = silent
		return n
	case "rem":
		start := p.i
		for p.peek() >= 0 && p.peek() != '\n' {
			p.i++
		}
		text := string(p.buf[start:p.i])
		if strings.ContainsAny(text, "^&|<>()\"") {
			in.unmodelled("rule 11: rem with special characters")
		}
		return simpleCmd{name: name, args: text, silent: silent}
	}
	args, redir := p.readArgs(depth)
	return simpleCmd{name: name, args: args, silent: silent, redir: redir}
}

// readArgs collects the argument text of a simple command: quotes toggle, an unquoted ^ escapes
// the next character (a ^ before LF continues on the next physical line whose first character is
// taken literally, even if it is another LF), & | LF and - inside a block - ')' terminate.
func (p *parser) readArgs(depth int) (string, bool) {
	in := p.in
	var b []byte
	inQ := false
	redir := false
	for {
		c := p.peek()
		if c < 0 || c == '\n' {
			break
		}
		if inQ {
			if c == '"' {
				inQ = false
			}
			b = append(b, byte(c))
			p.i++
			continue
		}
		switch c {
		case '"':
			inQ = true
			b = append(b, '"')
			p.i++
		case '^':
			p.i++
			n := p.peek()
			if n == '\n' {
				p.i++
				if p.peek() < 0 && !p.more() {
					return string(b), redir
				}
				n = p.peek()
			}
			if n < 0 {
				return string(b), redir
			}
			b = append(b, byte(n))
			p.i++
			if n == '\n' && p.peek() < 0 {
				// the escaped line feed was the end of its physical line: the command goes on
				if !p.more() {
					return string(b), redir
				}
			}
		case '&', '|':
			return string(b), redir
		case '<', '>':
			// redirection: consume operator and target token; executing the command is unmodelled
			redir = true
			// a single digit directly before the operator is a handle number
			if len(b) > 0 && b[len(b)-1] >= '0' && b[len(b)-1] <= '9' && (len(b) == 1 || isDelim(int(b[len(b)-2]))) {
				b = b[:len(b)-1]
			}
			p.i++
			if p.peek() == '>' {
				p.i++
			}
			if p.peek() == '&' {
				p.i++
			}
			p.skipBlanks()
			q := false
			for {
				d := p.peek()
				if d < 0 || d == '\n' {
					break
				}
				if d == '"' {
					q = !q
				} else if !q && (isDelim(d) || d == '&' || d == '|' || d == '<' || d == '>' || d == ')' && depth > 0) {
					break
				}
				p.i++
			}
		case ')':
			if depth > 0 {
				return string(b), redir
			}
			b = append(b, ')')
			p.i++
		default:
			b = append(b, byte(c))
			p.i++
		}
	}
	_ = in
	return string(b), redir
}

// parseBlock parses the statements of a parenthesised block; the opening '(' is consumed.
func (p *parser) parseBlock(depth int) node {
	in := p.in
	var list []node
	for {
		p.skipDelims()
		c := p.peek()
		switch {
		case c < 0:
			if !p.more() {
				in.scriptError("unbalanced parenthesis: end of file inside a ( block")
			}
			continue
		case c == '\n':
			p.i++
			continue
		case c == ')':
			p.i++
			return blockNode{list}
		}
		st := p.parseSequence(depth)
		list = append(list, st)
		if _, isLabel := st.(labelNode); isLabel {
			p.checkAfterBlockLabel()
			continue
		}
		p.skipBlanks()
		switch c := p.peek(); {
		case c == '\n':
			p.i++
		case c == ')' || c < 0:
		default:
			in.unmodelled("rule 1: unexpected %q inside a block", string(rune(c)))
		}
	}
}

// checkAfterBlockLabel enforces rule 7: inside a block a label line must be followed directly by
// an ordinary command line.
func (p *parser) checkAfterBlockLabel() {
	in := p.in
	if p.peek() == '\n' {
		p.i++
	}
	if p.peek() < 0 && !p.more() {
		in.scriptError("unbalanced parenthesis: end of file inside a ( block")
	}
	j := p.i
	for j < len(p.buf) && isDelim(int(p.buf[j])) {
		j++
	}
	c := -1
	if j < len(p.buf) {
		c = int(p.buf[j])
	}
	switch c {
	case -1, '\n':
		in.unmodelled("rule 7: label inside a block followed by an empty line")
	case ')':
		in.unmodelled("rule 7: label inside a block directly before ')'")
	case ':':
		in.unmodelled("rule 7: label inside a block followed by another label")
	case '(':
		in.unmodelled("rule 7: label inside a block followed by a line starting with '('")
	case '@':
		in.unmodelled("rule 7: label inside a block followed by an @ line")
	}
	// The repository's Windows expectations cover IF, FOR /F, SET and GOTO lines directly after a
	// label inside a block (tests ForContinue, StdStringsTrim*, ComplexProgram3); cmd.exe parses
	// that line specially, so commands of another kind than these and the simple ones are not assumed.
	k := j
	for k < len(p.buf) && !isDelim(int(p.buf[k])) && p.buf[k] != '\n' && p.buf[k] != '(' {
		k++
	}
	switch w := strings.ToLower(string(p.buf[j:k])); w {
	case "if", "for", "set", "call", "goto", "echo", "exit":
	default:
		in.unmodelled("rule 7: label inside a block followed by a %q line", w)
	}
}

// readToken reads one blank-delimited token (quotes keep blanks, ^ escapes) for IF.
func (p *parser) readToken(depth int, what string) string {
	in := p.in
	var b []byte
	inQ := false
	for {
		c := p.peek()
		if c < 0 || c == '\n' {
			break
		}
		if inQ {
			if c == '"' {
				inQ = false
			}
			b = append(b, byte(c))
			p.i++
			continue
		}
		if isBlank(c) {
			break
		}
		switch c {
		case '"':
			inQ = true
			b = append(b, '"')
			p.i++
			continue
		case '^':
			p.i++
			n := p.peek()
			if n < 0 || n == '\n' {
				in.unmodelled("rule 5: ^ at end of line inside %s", what)
			}
			b = append(b, byte(n))
			p.i++
			continue
		case ',', ';', '=', 0x0b, 0x0c, 0xff:
			in.unmodelled("rule 5: unquoted delimiter %q inside %s", string(rune(c)), what)
		case '(', ')':
			in.unmodelled("rule 5: unquoted parenthesis inside %s", what)
		case '&', '|', '<', '>':
			in.unmodelled("rule 5: unquoted %q inside %s", string(rune(c)), what)
		}
		b = append(b, byte(c))
		p.i++
	}
	return string(b)
}

func (p *parser) parseIf(depth int) ifNode {
	in := p.in
	n := ifNode{}
	p.skipBlanks()
	tok := p.readToken(depth, "an IF operand")
	if strings.EqualFold(tok, "/i") {
		n.insens = true
		p.skipBlanks()
		tok = p.readToken(depth, "an IF operand")
	}
	if strings.EqualFold(tok, "not") {
		n.not = true
		p.skipBlanks()
		tok = p.readToken(depth, "an IF operand")
	}
	if tok == "" {
		in.unmodelled("rule 5: IF without condition")
	}
	switch strings.ToLower(tok) {
	case "defined", "exist", "errorlevel":
		n.kind = strings.ToLower(tok)
		p.skipBlanks()
		n.left = p.readToken(depth, "an IF operand")
		if n.left == "" {
			in.unmodelled("rule 5: IF %s without operand", n.kind)
		}
	case "cmdextversion":
		in.unmodelled("rule 5: IF CMDEXTVERSION")
	default:
		n.kind = "cmp"
		n.left = tok
		if strings.HasPrefix(tok, "/") {
			in.unmodelled("rule 5: IF switch %s", tok)
		}
		p.skipBlanks()
		n.op = strings.ToLower(p.readToken(depth, "an IF operator"))
		switch n.op {
		case "equ", "neq", "lss", "leq", "gtr", "geq":
		default:
			in.unmodelled("rule 5: IF operator %q", n.op)
		}
		p.skipBlanks()
		n.right = p.readToken(depth, "an IF operand")
		if n.right == "" {
			in.unmodelled("rule 5: IF without right operand")
		}
	}
	p.skipBlanks()
	if c := p.peek(); c < 0 || c == '\n' || c == ')' || c == '&' || c == '|' {
		in.unmodelled("rule 5: IF without command")
	}
	thenIsBlock := p.peek() == '('
	if thenIsBlock {
		n.then = p.parseStatement(depth)
	} else {
		n.then = p.parseSequence(depth)
	}
	if !thenIsBlock {
		return n
	}
	// else is recognised only on the line of the closing parenthesis
	save := p.i
	p.skipBlanks()
	if p.i+4 <= len(p.buf) && strings.EqualFold(string(p.buf[p.i:p.i+4]), "else") {
		after := p.peekAt(4)
		if after < 0 || after == '\n' || isDelim(after) || after == '(' {
			p.i += 4
			p.skipBlanks()
			if c := p.peek(); c < 0 || c == '\n' {
				in.unmodelled("rule 5: ELSE without command")
			}
			if p.peek() == '(' {
				n.els = p.parseStatement(depth)
			} else {
				n.els = p.parseSequence(depth)
			}
			return n
		}
	}
	p.i = save
	return n
}

func (p *parser) parseFor(depth int) forNode {
	in := p.in
	n := forNode{}
	p.skipBlanks()
	if p.peek() == '/' {
		sw := p.readToken(depth, "a FOR switch")
		if !strings.EqualFold(sw, "/f") {
			in.unmodelled("rule 9: FOR %s", sw)
		}
		n.hasF = true
		p.skipBlanks()
		if p.peek() == '"' {
			o := p.readToken(depth, "FOR options")
			if len(o) < 2 || !strings.HasSuffix(o, `"`) {
				in.unmodelled("rule 9: FOR options %s", o)
			}
			n.opts = o[1 : len(o)-1]
		}
	} else {
		in.unmodelled("rule 9: FOR without /F")
	}
	p.skipBlanks()
	if p.peek() != '%' || p.peekAt(1) < 0 {
		in.unmodelled("rule 9: FOR variable expected")
	}
	n.v = byte(p.peekAt(1))
	if !(n.v >= 'a' && n.v <= 'z' || n.v >= 'A' && n.v <= 'Z') {
		in.unmodelled("rule 9: FOR variable %%%c", n.v)
	}
	p.i += 2
	p.skipBlanks()
	if w := p.readToken(depth, "FOR"); !strings.EqualFold(w, "in") {
		in.unmodelled("rule 9: FOR: 'in' expected, got %q", w)
	}
	p.skipBlanks()
	if p.peek() != '(' {
		in.unmodelled("rule 9: FOR: '(' expected")
	}
	p.i++
	var b []byte
	inQ := false
	for {
		c := p.peek()
		if c < 0 || c == '\n' {
			in.unmodelled("rule 9: FOR: IN clause continues on the next line")
		}
		if inQ {
			if c == '"' {
				inQ = false
			}
			b = append(b, byte(c))
			p.i++
			continue
		}
		if c == ')' {
			p.i++
			break
		}
		switch c {
		case '"':
			inQ = true
		case '^':
			in.unmodelled("rule 9: ^ in a FOR IN clause")
		case '&', '|', '<', '>', '(':
			in.unmodelled("rule 9: unquoted %q in a FOR IN clause", string(rune(c)))
		case ',', ';', '=', 0x0b, 0x0c, 0xff:
			in.unmodelled("rule 9: unquoted delimiter %q in a FOR IN clause", string(rune(c)))
		}
		b = append(b, byte(c))
		p.i++
	}
	n.set = string(b)
	p.skipBlanks()
	if w := p.readToken(depth, "FOR"); !strings.EqualFold(w, "do") {
		in.unmodelled("rule 9: FOR: 'do' expected, got %q", w)
	}
	p.skipBlanks()
	if c := p.peek(); c < 0 || c == '\n' {
		in.unmodelled("rule 9: FOR without command")
	}
	if p.peek() == '(' {
		n.body = p.parseStatement(depth)
	} else {
		n.body = p.parseSequence(depth)
	}
	return n
}

package cmdmodel

import (
	"math/rand"
	"strings"
	"testing"
)

// TestNeverPanicsOrHangs feeds systematically damaged variants of an emitted-style script to the
// model: whatever the text, Run must return (verdict, unmodelled or script error) and be deterministic.
func TestNeverPanicsOrHangs(t *testing.T) {
	base := strings.Split(bat(
		"(set LF=^", "", ")",
		"goto :_eo__ech", ":_ech", `if "!_fa0!" neq "" (echo !_fa0!) else echo.`, "exit /B", ":_eo__ech",
		"goto :_eo_f", ":f", `set "f1_a=!_fa0!"`, `set /A "f1__h0=!f1_a!*2"`, `set "_rv0=!f1__h0!"`, "goto :_ret_f", ":_ret_f", "exit /B", ":_eo_f",
		`set "i=0"`, `set "_fv0="`, ":_f0", "if defined _fv0 (", `set /A "_h0=!i!+1"`, `set "i=!_h0!"`, ")", `set "_fv0=1"`,
		`if !i! lss 3 (set "_h1=1") else set "_h1=0"`, `if "!_h1!" equ "1" (`,
		`set "_fa0=!i!"`, "call :f ", `set "_h2=!_rv0!"`,
		`for /f "delims=" %%i in ("_h2") do set "_h3=!%%i!"`,
		`if !_h3! equ 2 (set "_h4=1") else set "_h4=0"`, `if "!_h4!" equ "1" (`, "goto :_f0", "goto :_i0", ") else (", `set "_fa0=v !_h3!^!"`, "call :_ech ", "goto :_i0", ")", ":_i0",
		"goto :_f0", ")", ":_e0", ":end", "endlocal & exit /B %_e%",
	), "\r\n")
	ref := Run(strings.Join(base, "\r\n"), Options{})
	if ref.Unmodelled != "" || ref.Error != "" || lf(ref.Stdout) != "v 0!\nv 4!\n" {
		t.Fatalf("base script: %+v", ref)
	}
	rng := rand.New(rand.NewSource(1))
	junk := []string{"(", ")", "\"", "^", "%", "!", "&", "|", ">", "<", ":", "=", " ", "%1", "!x!", "%%", "else", "if", "for", "\n", "goto :_f0", "call :f"}
	counts := map[string]int{}
	for n := 0; n < 2500; n++ {
		lines := append([]string{}, base...)
		for k := rng.Intn(3) + 1; k > 0; k-- {
			i := rng.Intn(len(lines))
			switch rng.Intn(5) {
			case 0:
				lines = append(lines[:i], lines[i+1:]...)
			case 1:
				lines = append(lines[:i], append([]string{lines[rng.Intn(len(lines))]}, lines[i:]...)...)
			case 2:
				j := rng.Intn(len(lines))
				lines[i], lines[j] = lines[j], lines[i]
			case 3:
				l := lines[i]
				p := rng.Intn(len(l) + 1)
				lines[i] = l[:p] + junk[rng.Intn(len(junk))] + l[p:]
			case 4:
				l := lines[i]
				if len(l) > 0 {
					p := rng.Intn(len(l))
					lines[i] = l[:p] + l[p+1:]
				}
			}
		}
		script := strings.Join(lines, "\r\n")
		a := Run(script, Options{MaxSteps: 6000})
		b := Run(script, Options{MaxSteps: 6000})
		if a != b {
			t.Fatalf("not deterministic on\n%s\n%+v\n%+v", script, a, b)
		}
		switch {
		case a.Unmodelled != "":
			counts["unmodelled"]++
		case a.Error != "":
			counts["error"]++
		default:
			counts["verdict"]++
			if testing.Verbose() && a.Stdout != ref.Stdout && counts["shown"] < 40 && rng.Intn(8) == 0 {
				counts["shown"]++
				var diff []string
				set := map[string]int{}
				for _, l := range base {
					set[l]++
				}
				for _, l := range lines {
					if set[l] == 0 {
						diff = append(diff, l)
					}
					set[l]--
				}
				t.Logf("variant lines %q -> stdout %q exit %d", diff, a.Stdout, a.Exit)
			}
		}
	}
	t.Logf("outcomes: %v", counts)
	if counts["verdict"] == 0 || counts["unmodelled"] == 0 {
		t.Errorf("expected both decided and unmodelled variants: %v", counts)
	}
}

// Package corpus holds small TypeShell programs as text that several checks share (C05 and C16 judge them like any
// other program; C14 and C19 use them as inputs whose emitted bytes must not depend on what was transpiled before
// or on the order of the targets).
//
// Tiny: programs that use ONE facility of the language and as little else as possible - in particular most of them
// contain no string literal, no print of a string, no second statement kind. Whatever a back-end sets up lazily
// (header blocks, helper routines, default values, escape tables) is then set up by that one facility alone, or
// not at all.
package corpus

// Prog is one named program.
type Prog struct {
	Name string
	Src  string
}

// Tiny returns the sole-facility programs.
func Tiny() []Prog {
	return []Prog{
		{"int-literal", "x := 1\nprint(x)\n"},
		{"bool-literal", "b := true\nprint(b)\n"},
		{"string-literal", "s := \"a\"\nprint(s)\n"},
		{"string-literal-bang", "s := \"a!b^c\"\nprint(s)\n"},
		{"string-literal-newline", "s := \"a\\nb\"\nprint(s)\n"},
		{"default-int", "var n int\nprint(n)\n"},
		{"default-bool", "var b bool\nprint(b)\n"},
		{"default-string", "var s string\nprint(len(s))\n"},
		{"default-string-printed", "var s string\nprint(s)\n"},
		{"default-slice-int", "var xs []int\nprint(len(xs))\n"},
		{"default-slice-string", "var xs []string\nprint(len(xs))\n"},
		{"arith", "x := 7\ny := x * 3 - 2\nprint(y / 2, y % 5)\n"},
		{"compare", "x := 7\nprint(x < 8, x == 7, x != 7)\n"},
		{"logic", "a := true\nb := false\nprint(a && b, a || b, !a)\n"},
		{"itoa-only", "x := 42\nprint(len(itoa(x)))\n"},
		{"itoa-printed", "x := 42\nprint(itoa(x))\n"},
		{"slice-int-literal", "xs := []int{4, 5, 6}\nprint(xs[1])\n"},
		{"slice-int-grow", "xs := []int{}\nxs[2] = 9\nprint(len(xs), xs[0], xs[2])\n"},
		{"slice-string-elem-assign-no-literal", "xs := []string{}\nxs[0] = itoa(5)\nprint(len(xs))\n"},
		{"slice-string-gap-fill-no-literal", "xs := []string{}\nxs[2] = itoa(5)\nprint(len(xs), len(xs[0]), len(xs[2]))\n"},
		{"slice-string-gap-fill-printed", "xs := []string{}\nxs[2] = itoa(5)\nprint(xs[0], xs[2])\n"},
		{"slice-bool-gap-fill", "xs := []bool{}\nxs[1] = true\nprint(xs[0], xs[1])\n"},
		{"slice-copy", "xs := []int{1, 2, 3}\nys := []int{}\nn := copy(ys, xs)\nprint(n, ys[2])\n"},
		{"slice-copy-no-len", "xs := []int{1, 2, 3}\nys := []int{}\ncopy(ys, xs)\nprint(ys[0])\n"},
		{"slice-len-only", "xs := []int{1, 2, 3}\nprint(len(xs))\n"},
		{"slice-range", "xs := []int{1, 2, 3}\nt := 0\nfor i, v := range xs {\n\tt += i * v\n}\nprint(t)\n"},
		{"slice-alias", "xs := []int{1}\nys := xs\nys[0] = 8\nprint(xs[0])\n"},
		{"string-len", "s := \"abc\"\nprint(len(s))\n"},
		{"string-index", "s := \"abc\"\nprint(s[1])\n"},
		{"string-substr", "s := \"abcdef\"\nprint(s[1:3], s[:2], s[4:])\n"},
		{"string-range", "n := 0\nfor i, c := range \"abc\" {\n\tn += i + len(c)\n}\nprint(n)\n"},
		{"string-concat", "s := \"ab\"\nt := s + s\nprint(len(t))\n"},
		{"string-compare", "s := \"ab\"\nprint(s == \"ab\", s != \"ab\")\n"},
		{"if-else", "x := 3\nif x > 2 {\n\tx = 1\n} else {\n\tx = 2\n}\nprint(x)\n"},
		{"if-chain", "x := 3\nif x == 1 {\n\tx = 10\n} else if x == 3 {\n\tx = 30\n} else {\n\tx = 0\n}\nprint(x)\n"},
		{"switch", "x := 3\nswitch x {\ncase 1:\n\tx = 10\ncase 3:\n\tx = 30\ndefault:\n\tx = 0\n}\nprint(x)\n"},
		{"for-three", "t := 0\nfor i := 0; i < 3; i++ {\n\tt += i\n}\nprint(t)\n"},
		{"for-cond", "t := 0\nfor t < 3 {\n\tt++\n}\nprint(t)\n"},
		{"for-break-continue", "t := 0\nfor i := 0; i < 9; i++ {\n\tif i == 1 {\n\t\tcontinue\n\t}\n\tif i == 4 {\n\t\tbreak\n\t}\n\tt += i\n}\nprint(t)\n"},
		{"function-void", "func f(a int) {\n\tprint(a)\n}\nf(3)\n"},
		{"function-result", "func f(a int) int {\n\treturn a + 1\n}\nprint(f(3))\n"},
		{"function-two-results", "func f(a int) (int, int) {\n\treturn a, a + 1\n}\np, q := f(3)\nprint(p, q)\n"},
		{"function-string-result-default", "func f() string {\n\tvar r string\n\treturn r\n}\nprint(len(f()))\n"},
		{"function-slice-param", "func f(xs []int) {\n\txs[0] = 5\n}\nys := []int{1}\nf(ys)\nprint(ys[0])\n"},
		{"function-global-write", "g := 1\nfunc f() {\n\tg += 5\n}\nf()\nprint(g)\n"},
		{"swap", "a := 1\nb := 2\na, b = b, a\nprint(a, b)\n"},
		{"panic-only", "panic(\"boom\")\n"},
		{"panic-itoa", "x := 3\npanic(itoa(x))\n"},
		{"print-empty", "print()\n"},
		{"print-literal-only", "print(\"hi\")\n"},
		{"input-only", "s := input()\nprint(len(s))\n"},
		{"input-prompt", "s := input(\"? \")\nprint(len(s))\n"},
		{"exists-only", "print(exists(\"f.txt\"))\n"},
		{"write-only", "write(\"f.txt\", \"x\")\n"},
		{"write-append-only", "write(\"f.txt\", \"x\", true)\n"},
		{"write-itoa-no-literal-content", "p := \"f.txt\"\nwrite(p, itoa(7))\n"},
		{"read-only", "s := read(\"f.txt\")\nprint(len(s))\n"},
		{"command-plain", "@echo(\"a\")\n"},
		{"command-captured", "o, e, c := @echo(\"a\")\nprint(c)\n"},
		{"command-captured-printed", "o, e, c := @echo(\"a\")\nprint(o, e, c)\n"},
		{"command-piped", "@echo(\"a\") | @cat()\n"},
		{"command-no-literal-arg", "x := 3\n@echo(itoa(x))\n"},
		{"import-std-strings", "import (\n\t\"strings\"\n)\nprint(strings.Contains(\"hello\", \"ell\"))\n"},
		{"import-std-os", "import (\n\t\"os\"\n)\nprint(len(os.Shell()) > 0)\n"},
	}
}

package corpus

import (
	"fmt"
	"strings"
)

// The statement alphabet of the cross-feature space (engine/checks/cross.go crosses it with contexts and with
// itself; C12 and C13 use CrossAll as a corpus program). Every statement works on the state CrossPrelude defines.

// Stmt is one statement of the alphabet.
type Stmt struct {
	Name   string
	Text   string // '#' is replaced by a number unique to the position, so fresh names never collide
	Owner  int    // 1 = scalars and control flow (C01), 2 = functions (C02), 3 = slices and strings (C03)
	GoSafe bool   // Go gives the same text the same meaning (model conformance)
}

const CrossPrelude = `x := 5
y := 3
t := false
s := "ab"
u := "q"
v := []int{1, 2}
w := []string{"p"}
z := []int{9}
n := 0
g := 10
k0 := 1
print("start", k0)
func inc(a int) int {
	return a + 1
}
func two(a int) (int, string) {
	return a * 2, itoa(a)
}
func bump() int {
	g++
	return g
}
func setf(sl []int, i int, e int) {
	sl[i] = e
}
func mk() []int {
	m := []int{7, 8}
	return m
}
func mk2(a int) []int {
	m2 := []int{a, a + 1}
	return m2
}
func sumv(p []int, q []int) int {
	return p[0] + p[1] * 10 + q[0] * 100 + q[1] * 1000
}
func both(a int) ([]int, []int) {
	return mk2(a), mk2(a + 2)
}
func join(a string, b string) string {
	return a + b
}
func flag(a int) bool {
	return a > 3
}
func loopsum(k int) int {
	acc := 0
	for i := 0; i < k; i++ {
		acc += i
	}
	return acc
}
func noisy(tag string) int {
	print("noisy", tag)
	return len(tag)
}
`

const CrossMid = `print("mid", x, y, t, s, u, n, g, len(v), len(w))
`

// CrossPre is a dump of the state placed BEFORE the context in two program variants: executed ("live": every
// facility the body uses has an earlier occurrence that ran) or inside a branch that is never taken ("dead": an
// earlier occurrence in the text that did not run).
const CrossPre = `print("pre", x, y, t, s, u, n, g, len(v), len(w), len(z), len(s), len(u), v[0], v[len(v) - 1], w[0], z[0], s[0:1], u[0:])
`

const CrossEnd = `print("end", x, y, t, s, u, n, g, len(v), len(w))
for vi, ve := range v {
	print("v", vi, ve)
}
for wi, we := range w {
	print("w", wi, we)
}
for zi, ze := range z {
	print("z", zi, ze)
}
`

func CrossStmts() []Stmt {
	S := func(owner int, goSafe bool, name, text string) Stmt {
		return Stmt{Name: name, Text: text, Owner: owner, GoSafe: goSafe}
	}
	return []Stmt{
		// scalars and control flow
		S(1, true, "x=x+y", "x = x + y"),
		S(1, true, "x+=2", "x += 2"),
		S(1, true, "x-=y", "x -= y"),
		S(1, true, "x*=3", "x *= 3"),
		S(1, true, "y=x/2", "y = x / 2"),
		S(1, true, "x%=4", "x %= 4"),
		S(1, true, "x++", "x++"),
		S(1, true, "y--", "y--"),
		S(1, true, "t=!t", "t = !t"),
		S(1, true, "t=x<y", "t = x < y"),
		S(1, true, "t=mixed-logic", "t = x == y || t && x > 2"),
		S(1, true, "s+=c", `s += "c"`),
		S(1, true, "s=u+s", "s = u + s"),
		S(1, true, "u=itoa(x)+u", "u = itoa(x) + u"),
		S(1, true, "swap-int", "x, y = y, x"),
		S(1, true, "swap-str", "s, u = u, s"),
		S(1, true, "x,s=len,itoa", "x, s = len(s), itoa(x)"),
		S(1, true, "define-short", "a# := x * 2\nprint(\"a\", a#)"),
		S(1, true, "define-var", "var b# int\nb# = y\nprint(\"b\", b#)"),
		S(1, true, "define-two", "c#, d# := y, u\nprint(\"cd\", c#, d#)"),
		S(1, true, "print-all", "print(x, y, t, s, u)"),
		S(1, true, "print-empty", "print()"),
		S(1, true, "if-else", "if x > y {\nx -= y\n} else {\ny -= x\n}"),
		S(1, true, "if-chain", "if t {\ns += \"t\"\n} else if x > 3 {\ns += \"x\"\n} else {\ns += \"e\"\n}"),
		S(1, true, "switch-tag", "switch x % 3 {\ncase 0:\ny += 1\ncase 1:\ny += 2\ndefault:\ny += 3\n}"),
		S(1, true, "switch-tagless", "switch {\ncase x > y:\nu = \"gt\"\ncase x < y:\nu = \"lt\"\n}"),
		S(1, true, "for3", "for i# := 0; i# < 2; i#++ {\nx += i#\n}"),
		S(1, true, "for-cond", "for x < 8 {\nx += 3\n}"),
		S(1, true, "for-ever-break", "for {\nx++\nif x > 6 {\nbreak\n}\n}"),
		S(1, true, "for-continue", "for i# := 0; i# < 3; i#++ {\nif i# == 1 {\ncontinue\n}\ny += i#\n}"),
		S(1, true, "for-down", "for i# := 2; i# > 0; i#-- {\ns += itoa(i#)\n}"),
		// functions
		S(2, true, "x=inc(x)", "x = inc(x)"),
		S(2, true, "x,s=two(y)", "x, s = two(y)"),
		S(2, true, "j,e:=two(x)", "j#, e# := two(x)\nprint(\"e\", j#, e#)"),
		S(2, true, "inc(x)-stmt", "inc(x)"),
		S(2, true, "x=inc(inc(y))", "x = inc(inc(y))"),
		S(2, true, "x=bump()+bump()", "x = bump() + bump()"),
		S(2, true, "y=bump()*x", "y = bump() * x"),
		S(2, true, "s=join(s,u)", "s = join(s, u)"),
		S(2, true, "s=join-nested", `s = join(join(u, "z"), itoa(inc(x)))`),
		S(2, true, "t=flag(x)", "t = flag(x)"),
		S(2, true, "y=loopsum(3)", "y = loopsum(3)"),
		S(2, true, "print-noisy-twice", `print(noisy("a"), noisy("bb"))`),
		S(2, true, "n=noisy+noisy", "n = noisy(s) + noisy(u)"),
		S(2, true, "if-flag(inc(x))", "if flag(inc(x)) {\ns += \"F\"\n}"),
		S(2, true, "for-cond-call", "for i# := 0; i# < inc(1); i#++ {\ng += i#\n}"),
		S(2, true, "x,y=inc(y),inc(x)", "x, y = inc(y), inc(x)"),
		S(2, true, "setf(v,0,x)", "setf(v, 0, x)"),
		S(2, true, "v=mk()", "v = mk()"),
		// several calls that return slices alive in one statement
		S(2, true, "x=sumv(mk2,mk2)", "x = sumv(mk2(x), mk2(y))"),
		S(3, true, "v,z=mk2,mk2", "v, z = mk2(1), mk2(5)"),
		S(2, true, "v,z=both()", "v, z = both(y)"),
		S(3, true, "x=len(mk2)+len(mk)", "x = len(mk2(1)) + len(mk()) + sumv(v, mk2(2))"),
		// slices and strings
		S(3, true, "v[0]=x", "v[0] = x"),
		S(3, false, "v[len(v)]=y", "v[len(v)] = y"),
		S(3, false, "v[len(v)+1]=7", "v[len(v) + 1] = 7"),
		S(3, false, "setf(v,len(v),bump())", "setf(v, len(v), bump())"),
		S(3, false, "w[len(w)]=s", "w[len(w)] = s"),
		S(3, true, "w[0]=u+w[0]", "w[0] = u + w[0]"),
		S(3, true, "v=literal", "v = []int{x, y, 4}"),
		S(3, true, "w=literal", "w = []string{s, u}"),
		S(3, false, "alias-write", "al# := v\nal#[1] = 9"),
		S(3, true, "swap-slices", "v, z = z, v"),
		S(3, true, "z=v", "z = v"),
		S(3, false, "z-grow", "z[len(z)] = x"),
		S(3, true, "rotate-mixed", "x, v, z, y = y, z, v, x"),
		S(3, false, "fresh-grow-assign", "nv# := []int{}\nnv#[0] = x\nv = nv#"),
		S(3, false, "n=copy(v,literal)", "n = copy(v, []int{7, 8, 9})"),
		S(3, true, "range-v", "for i#, e# := range v {\nx += e# * i#\n}"),
		S(3, false, "range-s-blank", "for _, c# := range s {\nu = c# + u\n}"),
		S(3, true, "range-w-index", "for i# := range w {\nw[i#] = w[i#] + itoa(i#)\n}"),
		S(3, true, "u=s[0:1]", "u = s[0:1]"),
		S(3, true, "u=s[1:]", "u = s[1:]"),
		S(3, true, "u=s[:1]", "u = s[:1]"),
		// subscripts of an EMPTY string (alone: after whatever substring was taken before; and between two others)
		S(3, true, "u=empty[0:0]", "em# := \"\"\nu = em#[0:0] + em#[0:] + em#[:0]"),
		S(3, true, "u=sub+emptysub+sub", "en# := \"\"\nu = s[0:1] + en#[0:] + s[1:]"),
		S(3, false, "u=s[len(s)-1]", "u = s[len(s) - 1]"),
		S(3, true, "x=len+len+len", "x = len(s) + len(v) + len(w)"),
		S(3, false, "t=s==u||s[0]==a", `t = s == u || s[0] == "a"`),
		S(3, true, "t=len(v)>2", "t = len(v) > 2"),
		S(3, true, "print-elements", "print(len(v), v[0], v[len(v) - 1], len(w), w[0])"),
		S(3, true, "x=v[0]+v[1]", "x = v[0] + v[1]"),
		S(3, true, "s=w[0]+w[last]", "s = w[0] + w[len(w) - 1]"),
	}
}

// CrossAll is one program that executes every statement of the alphabet once, in order.
func CrossAll() Prog {
	var b strings.Builder
	b.WriteString(CrossPrelude)
	for i, s := range CrossStmts() {
		b.WriteString(strings.ReplaceAll(s.Text, "#", fmt.Sprint(i+1)) + "\n")
		if i%10 == 9 {
			b.WriteString(CrossMid)
		}
	}
	b.WriteString(CrossEnd)
	return Prog{Name: "cross-all-statements", Src: b.String()}
}

// Package drive runs the real implementation: the repository's transpiler
// (linked in-process from /repo's working tree) and the real /bin/bash.
package drive

import (
	"bytes"
	"context"
	"fmt"
	"io"
	"os"
	"os/exec"
	"path/filepath"
	"runtime"
	"sort"
	"sync"
	"sync/atomic"
	"syscall"
	"time"

	"github.com/monstermichl/typeshell/converters/bash"
	"github.com/monstermichl/typeshell/converters/batch"
	"github.com/monstermichl/typeshell/transpiler"
)

type Target int

const (
	Bash Target = iota
	Batch
)

func (t Target) String() string {
	if t == Bash {
		return "bash"
	}
	return "batch"
}

var (
	scratchRoot string
	scratchOnce sync.Once
	scratchSeq  int64
)

// Scratch returns the run's private scratch root (tmpfs if available).
func Scratch() string {
	scratchOnce.Do(func() {
		base := os.Getenv("VERIF_SCRATCH")
		if base == "" {
			base = "/dev/shm"
			if st, err := os.Stat(base); err != nil || !st.IsDir() {
				base = os.TempDir()
			}
		}
		d, err := os.MkdirTemp(base, "verif-")
		if err != nil {
			panic(err)
		}
		scratchRoot = d
	})
	return scratchRoot
}

// Cleanup removes the scratch root.
func Cleanup() {
	if scratchRoot != "" {
		os.RemoveAll(scratchRoot)
	}
}

// NewDir returns a fresh empty directory under the scratch root.
func NewDir(prefix string) string {
	n := atomic.AddInt64(&scratchSeq, 1)
	d := filepath.Join(Scratch(), fmt.Sprintf("%s%d", prefix, n))
	if err := os.MkdirAll(d, 0o755); err != nil {
		panic(err)
	}
	return d
}

// TResult classifies one Transpile call.
type TResult struct {
	Script string
	Err    string // error text ("" if none)
	HasErr bool
	Panic  string // non-empty: the call panicked (value + first frames)
}

// OK reports "script and no error".
func (r TResult) OK() bool { return r.Panic == "" && !r.HasErr && r.Script != "" }

// Rejected reports "error and no script".
func (r TResult) Rejected() bool { return r.Panic == "" && r.HasErr && r.Script == "" }

// WriteFiles materialises a source tree.
func WriteFiles(dir string, files map[string]string) {
	for name, src := range files {
		p := filepath.Join(dir, name)
		if err := os.MkdirAll(filepath.Dir(p), 0o755); err != nil {
			panic(err)
		}
		if err := os.WriteFile(p, []byte(src), 0o644); err != nil {
			panic(err)
		}
	}
}

// TranspileWatchdog bounds one in-process Transpile call. Typical calls take
// about a millisecond; a call that does not return within this (very generous,
// load-tolerant) time is classified as a hang and its goroutine is abandoned.
var TranspileWatchdog = 90 * time.Second

// TranspilePath calls the repository's transpiler on an existing file.
func TranspilePath(path string, target Target) TResult {
	ch := make(chan TResult, 1)
	go func() { ch <- transpilePath(path, target) }()
	select {
	case r := <-ch:
		return r
	case <-time.After(TranspileWatchdog):
		return TResult{Panic: fmt.Sprintf("hang: Transpile did not return within %s", TranspileWatchdog)}
	}
}

func transpilePath(path string, target Target) (res TResult) {
	defer func() {
		if r := recover(); r != nil {
			buf := make([]byte, 4096)
			n := runtime.Stack(buf, false)
			res = TResult{Panic: fmt.Sprintf("%v\n%s", r, buf[:n])}
		}
	}()
	t := transpiler.New()
	var conv transpiler.Converter
	if target == Bash {
		conv = bash.New()
	} else {
		conv = batch.New()
	}
	s, err := t.Transpile(path, conv)
	res.Script = s
	if err != nil {
		res.HasErr = true
		res.Err = err.Error()
	}
	return res
}

// TranspileSeqSrc transpiles one single-file program for several targets in turn on ONE transpiler object
// (a fresh converter per target), the way the tsh command serves "-t batch -t bash".
func TranspileSeqSrc(src string, targets ...Target) []TResult {
	dir := NewDir("src")
	defer os.RemoveAll(dir)
	WriteFiles(dir, map[string]string{"main.tsh": src})
	path := filepath.Join(dir, "main.tsh")
	ch := make(chan []TResult, 1)
	go func() {
		out := make([]TResult, len(targets))
		t := transpiler.New()
		for i, tg := range targets {
			func() {
				defer func() {
					if r := recover(); r != nil {
						out[i] = TResult{Panic: fmt.Sprint(r)}
					}
				}()
				var conv transpiler.Converter
				if tg == Bash {
					conv = bash.New()
				} else {
					conv = batch.New()
				}
				s, err := t.Transpile(path, conv)
				out[i].Script = s
				if err != nil {
					out[i].HasErr, out[i].Err = true, err.Error()
				}
			}()
		}
		ch <- out
	}()
	select {
	case r := <-ch:
		return r
	case <-time.After(TranspileWatchdog):
		out := make([]TResult, len(targets))
		for i := range out {
			out[i] = TResult{Panic: fmt.Sprintf("hang: Transpile did not return within %s", TranspileWatchdog)}
		}
		return out
	}
}

// Transpile writes the files into a fresh directory and transpiles main.
func Transpile(files map[string]string, main string, target Target) TResult {
	dir := NewDir("src")
	defer os.RemoveAll(dir)
	WriteFiles(dir, files)
	return TranspilePath(filepath.Join(dir, main), target)
}

// TranspileSrc transpiles a single-file program.
func TranspileSrc(src string, target Target) TResult {
	return Transpile(map[string]string{"main.tsh": src}, "main.tsh", target)
}

// RunResult is what one execution of an emitted Bash script did.
type RunResult struct {
	Stdout   string
	Stderr   string
	Exit     int
	Runaway  string            // non-empty: killed (output cap / cpu limit / backstop)
	Files    map[string]string // files in the sandbox afterwards (relative path -> content)
	WallSecs float64
}

type RunOpts struct {
	Stdin     string
	Files     map[string]string // pre-populated sandbox files (mode 0755)
	OutputCap int               // bytes; default 256 KiB
	Backstop  time.Duration     // wall-clock resource backstop; default 120 s
	KeepFiles bool              // collect sandbox files afterwards
	Env       []string
	CPUSecs   int // RLIMIT_CPU of the script process (load-independent runaway guard); default 30
}

type capWriter struct {
	buf    bytes.Buffer
	cap    int
	over   bool
	cancel func()
}

func (w *capWriter) Write(p []byte) (int, error) {
	if w.buf.Len()+len(p) > w.cap {
		w.over = true
		if w.cancel != nil {
			w.cancel()
		}
		return 0, io.ErrShortWrite
	}
	return w.buf.Write(p)
}

// RunBash executes script text with the real /bin/bash in an empty
// environment and an empty working directory.
func RunBash(script string, o RunOpts) RunResult {
	dir := NewDir("run")
	defer os.RemoveAll(dir)
	box := filepath.Join(dir, "box")
	os.MkdirAll(box, 0o755)
	sp := filepath.Join(dir, "script.sh")
	if err := os.WriteFile(sp, []byte(script), 0o755); err != nil {
		panic(err)
	}
	for n, c := range o.Files {
		p := filepath.Join(box, n)
		os.MkdirAll(filepath.Dir(p), 0o755)
		os.WriteFile(p, []byte(c), 0o755)
	}
	if o.OutputCap == 0 {
		o.OutputCap = 256 << 10
	}
	if o.Backstop == 0 {
		o.Backstop = 120 * time.Second
	}
	ctx, cancel := context.WithTimeout(context.Background(), o.Backstop)
	defer cancel()
	// ulimit -t is a load-independent runaway guard; exec keeps it one process.
	if o.CPUSecs == 0 {
		o.CPUSecs = 30
	}
	cmd := exec.CommandContext(ctx, "/bin/bash", "-c", fmt.Sprintf(`ulimit -t %d; exec /bin/bash "$0"`, o.CPUSecs), sp)
	cmd.Dir = box
	cmd.Env = append([]string{}, o.Env...)
	cmd.SysProcAttr = &syscall.SysProcAttr{Setpgid: true}
	cmd.Cancel = func() error {
		return syscall.Kill(-cmd.Process.Pid, syscall.SIGKILL)
	}
	cmd.WaitDelay = 2 * time.Second
	cmd.Stdin = bytes.NewReader([]byte(o.Stdin))
	so := &capWriter{cap: o.OutputCap, cancel: cancel}
	se := &capWriter{cap: o.OutputCap, cancel: cancel}
	cmd.Stdout, cmd.Stderr = so, se
	t0 := time.Now()
	err := cmd.Run()
	res := RunResult{Stdout: so.buf.String(), Stderr: se.buf.String(), WallSecs: time.Since(t0).Seconds()}
	if cmd.Process != nil {
		syscall.Kill(-cmd.Process.Pid, syscall.SIGKILL) // reap stragglers of the group
	}
	if so.over || se.over {
		res.Runaway = "output-cap"
	} else if ctx.Err() != nil {
		res.Runaway = "wall-backstop"
	}
	if err != nil {
		if ee, ok := err.(*exec.ExitError); ok {
			res.Exit = ee.ExitCode()
			if ws, ok := ee.Sys().(syscall.WaitStatus); ok && ws.Signaled() {
				res.Exit = 128 + int(ws.Signal())
				if ws.Signal() == syscall.SIGXCPU && res.Runaway == "" {
					res.Runaway = "cpu-limit"
				}
			}
		} else if res.Runaway == "" {
			res.Runaway = "exec-error: " + err.Error()
		}
	}
	if o.KeepFiles {
		res.Files = map[string]string{}
		filepath.Walk(box, func(p string, info os.FileInfo, err error) error {
			if err != nil || info.IsDir() {
				return nil
			}
			rel, _ := filepath.Rel(box, p)
			if _, pre := o.Files[rel]; pre {
				b, _ := os.ReadFile(p)
				if string(b) == o.Files[rel] {
					return nil
				}
			}
			b, _ := os.ReadFile(p)
			res.Files[rel] = string(b)
			return nil
		})
	}
	return res
}

// Par runs f(i) for i in [0,n) on all cores.
func Par(n int, f func(i int)) {
	workers := runtime.NumCPU()
	if w := os.Getenv("VERIF_WORKERS"); w != "" {
		fmt.Sscanf(w, "%d", &workers)
	}
	if workers > n {
		workers = n
	}
	if workers < 1 {
		workers = 1
	}
	var next int64 = -1
	var wg sync.WaitGroup
	for w := 0; w < workers; w++ {
		wg.Add(1)
		go func() {
			defer wg.Done()
			for {
				i := int(atomic.AddInt64(&next, 1))
				if i >= n {
					return
				}
				f(i)
			}
		}()
	}
	wg.Wait()
}

// SortedKeys returns the keys of a string map in order.
func SortedKeys[V any](m map[string]V) []string {
	ks := make([]string, 0, len(m))
	for k := range m {
		ks = append(ks, k)
	}
	sort.Strings(ks)
	return ks
}

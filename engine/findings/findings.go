// Package findings implements verdicts: known-finding matching against the
// committed KNOWN_FINDINGS.txt (never written at run time), VIOLATION lines
// with replay artefacts, and the evidence file of a run.
package findings

import (
	"bufio"
	"crypto/sha256"
	"encoding/json"
	"fmt"
	"os"
	"path/filepath"
	"regexp"
	"sort"
	"strconv"
	"strings"
	"sync"
	"time"
)

// Root is /verif (derived from the binary's location unless VERIF_ROOT is set).
func Root() string {
	if r := os.Getenv("VERIF_ROOT"); r != "" {
		return r
	}
	exe, err := os.Executable()
	if err != nil {
		return "/verif"
	}
	return filepath.Dir(filepath.Dir(exe)) // <root>/bin/vcheck
}

type known struct {
	key  string
	desc string
	hit  bool
}

// Run collects everything one check run produces.
type Run struct {
	Prop  string
	Tier  string
	Seed  int64
	Level string
	start time.Time

	mu          sync.Mutex
	known       map[string]*known
	violations  []violation
	Assume      []string
	Cov         map[string]interface{}
	samples     []interface{}
	sampleKinds map[string]int
	maxReplays  int
}

type violation struct {
	key, desc, replay string
}

var knownLine = regexp.MustCompile(`^known:\s+property=(\S+)\s+key=(.*?)\s+::\s+(.*)$`)

// New starts a run for one property.
func New(prop string) *Run {
	tier := os.Getenv("VERIF_TIER")
	if tier != "thorough" {
		tier = "quick"
	}
	seed, _ := strconv.ParseInt(os.Getenv("VERIF_SEED"), 10, 64)
	r := &Run{Prop: prop, Tier: tier, Seed: seed, Level: "exploration", start: time.Now(),
		known: map[string]*known{}, Cov: map[string]interface{}{}, maxReplays: 20}
	f, err := os.Open(filepath.Join(Root(), "KNOWN_FINDINGS.txt"))
	if err == nil {
		defer f.Close()
		sc := bufio.NewScanner(f)
		sc.Buffer(make([]byte, 1<<20), 1<<20)
		for sc.Scan() {
			m := knownLine.FindStringSubmatch(strings.TrimSpace(sc.Text()))
			if m != nil && m[1] == prop {
				r.known[m[2]] = &known{key: m[2], desc: m[3]}
			}
		}
	}
	return r
}

func (r *Run) Thorough() bool { return r.Tier == "thorough" }

// IsKnown reports whether key is listed (used by guards).
func (r *Run) IsKnown(key string) bool {
	r.mu.Lock()
	defer r.mu.Unlock()
	_, ok := r.known[key]
	return ok
}

// KnownKeys lists the listed keys with the given prefix.
func (r *Run) KnownKeys(prefix string) []string {
	r.mu.Lock()
	defer r.mu.Unlock()
	var ks []string
	for k := range r.known {
		if strings.HasPrefix(k, prefix) {
			ks = append(ks, k)
		}
	}
	sort.Strings(ks)
	return ks
}

// Replay describes the artefacts written for a violation.
type Replay struct {
	Files  map[string]string // file name -> content (sources, script, expected, actual, ...)
	Script string            // body of replay.sh (run from the replay directory)
}

// Fail records one failing case. If key is a listed known finding it is
// remembered for the KNOWN-FINDING line, otherwise it becomes a violation.
func (r *Run) Fail(key, desc string, rp func() Replay) {
	r.mu.Lock()
	defer r.mu.Unlock()
	if k, ok := r.known[key]; ok {
		k.hit = true
		return
	}
	for _, v := range r.violations {
		if v.key == key {
			return // one report per key
		}
	}
	path := ""
	if len(r.violations) < r.maxReplays && rp != nil {
		path = r.writeReplay(key, desc, rp())
	} else {
		// beyond the artefact cap (or no artefact builder): the coordinates alone are written, so that
		// every VIOLATION line names a path that exists; the key re-creates the case in the enumeration
		path = r.writeReplay(key, desc+"\n(full artefacts are written for the first "+fmt.Sprint(r.maxReplays)+" violations of a run; this one is identified by its enumeration key)", Replay{})
	}
	r.violations = append(r.violations, violation{key, desc, path})
}

func (r *Run) writeReplay(key, desc string, rp Replay) string {
	h := sha256.Sum256([]byte(key))
	dir := filepath.Join(Root(), "replays", r.Prop, fmt.Sprintf("%x", h[:6]))
	os.MkdirAll(dir, 0o755)
	for n, c := range rp.Files {
		p := filepath.Join(dir, n)
		os.MkdirAll(filepath.Dir(p), 0o755)
		os.WriteFile(p, []byte(c), 0o644)
	}
	os.WriteFile(filepath.Join(dir, "KEY.txt"), []byte("property="+r.Prop+"\nkey="+key+"\n"+desc+"\n"), 0o644)
	if rp.Script != "" {
		os.WriteFile(filepath.Join(dir, "replay.sh"), []byte("#!/bin/bash\n# replays this violation against /repo without the explorer\ncd \"$(dirname \"$0\")\"\n"+rp.Script+"\n"), 0o755)
	}
	return dir
}

// Sample records an explored case for the evidence file (bounded).
func (r *Run) Sample(s interface{}) {
	r.mu.Lock()
	defer r.mu.Unlock()
	kind := ""
	if m, ok := s.(map[string]string); ok {
		kind = m["kind"]
	}
	if r.sampleKinds == nil {
		r.sampleKinds = map[string]int{}
	}
	if r.sampleKinds[kind] < 3 && len(r.samples) < 24 {
		r.sampleKinds[kind]++
		r.samples = append(r.samples, s)
	}
}

func (r *Run) Assumef(format string, a ...interface{}) {
	r.mu.Lock()
	defer r.mu.Unlock()
	r.Assume = append(r.Assume, fmt.Sprintf(format, a...))
}

// Set stores a coverage key.
func (r *Run) Set(k string, v interface{}) {
	r.mu.Lock()
	defer r.mu.Unlock()
	r.Cov[k] = v
}

// Add increments an integer coverage key.
func (r *Run) Add(k string, n int) {
	r.mu.Lock()
	defer r.mu.Unlock()
	cur, _ := r.Cov[k].(int)
	r.Cov[k] = cur + n
}

// Violations returns the number of unlisted failing keys so far.
func (r *Run) Violations() int {
	r.mu.Lock()
	defer r.mu.Unlock()
	return len(r.violations)
}

// Finish prints the verdict lines, writes the evidence file and returns the
// process exit status.
func (r *Run) Finish() int {
	r.mu.Lock()
	defer r.mu.Unlock()
	keys := make([]string, 0, len(r.known))
	for k := range r.known {
		keys = append(keys, k)
	}
	sort.Strings(keys)
	nk := 0
	for _, k := range keys {
		if r.known[k].hit {
			fmt.Printf("KNOWN-FINDING: property=%s %s [key=%s]\n", r.Prop, r.known[k].desc, k)
			nk++
		}
	}
	for _, v := range r.violations {
		p := v.replay
		if p == "" {
			p = "(not-written:replay-cap)"
		}
		fmt.Printf("VIOLATION property=%s replay=%s key=%s :: %s\n", r.Prop, p, v.key, v.desc)
	}
	cov := r.Cov
	if _, ok := cov["samples"]; !ok {
		cov["samples"] = r.samples
	}
	cov["known_findings_reproduced"] = nk
	ev := map[string]interface{}{
		"property_id": r.Prop,
		"tier":        r.Tier,
		"seed":        r.Seed,
		"level":       r.Level,
		"coverage":    cov,
		"assumptions": r.Assume,
		"wall_s":      time.Since(r.start).Seconds(),
		"violations":  len(r.violations),
	}
	if r.Assume == nil {
		ev["assumptions"] = []string{}
	}
	b, _ := json.MarshalIndent(ev, "", " ")
	dir := filepath.Join(Root(), "evidence")
	os.MkdirAll(dir, 0o755)
	if err := os.WriteFile(filepath.Join(dir, r.Prop+".json"), append(b, '\n'), 0o644); err != nil {
		fmt.Fprintln(os.Stderr, "cannot write evidence:", err)
		return 2
	}
	fmt.Printf("%s %s: evaluations=%v distinct_nontrivial=%v exhaustive=%v known=%d violations=%d wall=%.1fs\n",
		r.Prop, r.Tier, cov["evaluations"], cov["distinct_nontrivial"], cov["exhaustive"], nk, len(r.violations), time.Since(r.start).Seconds())
	if len(r.violations) > 0 {
		return 1
	}
	return 0
}

// Distinct counts distinct strings concurrently.
type Distinct struct {
	mu sync.Mutex
	m  map[[16]byte]struct{}
}

func NewDistinct() *Distinct { return &Distinct{m: map[[16]byte]struct{}{}} }

func (d *Distinct) Add(s string) {
	h := sha256.Sum256([]byte(s))
	var k [16]byte
	copy(k[:], h[:16])
	d.mu.Lock()
	d.m[k] = struct{}{}
	d.mu.Unlock()
}

func (d *Distinct) Len() int {
	d.mu.Lock()
	defer d.mu.Unlock()
	return len(d.m)
}

// Deadline is the internal time budget of a run; past it a check stops
// enumerating and reports exhaustive:false (never a violation).
func (r *Run) Deadline(quick, thorough time.Duration) time.Time {
	d := quick
	if r.Thorough() {
		d = thorough
	}
	if s := os.Getenv("VERIF_BUDGET_S"); s != "" {
		if n, err := strconv.Atoi(s); err == nil {
			d = time.Duration(n) * time.Second
		}
	}
	return r.start.Add(d)
}

// Package reflex is the reference lexer of the verification engine: the token
// grammar of property C11 written as a hand-rolled longest-match scanner.
//
// It is independent of the repository's lexer (no regular expressions, no code
// shared with /repo/lexer) and it is THREE-VALUED: for an input it answers
//
//   - the expected lexeme list (every source byte is accounted for by exactly one
//     lexeme; blanks and comments are lexemes too, callers drop them), or
//   - an expected ERROR (unterminated string, unknown character), or
//   - UNSPECIFIED, with the reasons, for everything the property is silent about
//     (unterminated block comment, lone \r, floats, '-' glued to a digit after an
//     operand, '&' alone, bytes that are not UTF-8, Unicode letters outside
//     strings, a physical newline or an invalid escape inside an interpreted
//     string, digits glued to letters such as 0x1F or 1e5).  For unspecified
//     inputs the lexemes are a best-effort reading (used by C12 only for the one
//     case it owns: `a-1` is read as `a`, `-`, `1`).
//
// Positions: rows and columns are 1-based and refer to the FIRST character of
// the lexeme.  Columns count BYTES (like go/scanner), a tab is one column, and
// "\r\n" is ONE line end whose NEWLINE lexeme sits at the position of the '\r'.
package reflex

import (
	"strings"
	"unicode"
	"unicode/utf8"
)

// Type mirrors the token-type set of the repository's lexer (names only; the
// numeric values are this package's own).
type Type int

const (
	Unknown Type = iota
	Comment
	OpeningRoundBracket
	ClosingRoundBracket
	OpeningSquareBracket
	ClosingSquareBracket
	OpeningCurlyBracket
	ClosingCurlyBracket
	AssignOperator
	CompoundAssignOperator
	UnaryOperator
	BinaryOperator
	CompareOperator
	LogicalOperator
	ShortInitOperator
	IncrementOperator
	DecrementOperator
	BoolLiteral
	NumberLiteral
	StringLiteral
	NilLiteral
	DataType
	Comma
	Colon
	Semicolon
	Dot
	Space
	Newline
	Identifier
	Import
	VarDefinition
	FunctionDefinition
	Return
	If
	Else
	Switch
	Case
	Default
	For
	Range
	Break
	Continue
	Len
	Print
	Input
	Copy
	Itoa
	Exists
	Read
	Write
	Panic
	At
	Pipe
	EOF
)

var typeNames = [...]string{"UNKNOWN", "COMMENT", "OPENING_ROUND_BRACKET", "CLOSING_ROUND_BRACKET",
	"OPENING_SQUARE_BRACKET", "CLOSING_SQUARE_BRACKET", "OPENING_CURLY_BRACKET", "CLOSING_CURLY_BRACKET",
	"ASSIGN_OPERATOR", "COMPOUND_ASSIGN_OPERATOR", "UNARY_OPERATOR", "BINARY_OPERATOR", "COMPARE_OPERATOR",
	"LOGICAL_OPERATOR", "SHORT_INIT_OPERATOR", "INCREMENT_OPERATOR", "DECREMENT_OPERATOR", "BOOL_LITERAL",
	"NUMBER_LITERAL", "STRING_LITERAL", "NIL_LITERAL", "DATA_TYPE", "COMMA", "COLON", "SEMICOLON", "DOT",
	"SPACE", "NEWLINE", "IDENTIFIER", "IMPORT", "VAR_DEFINITION", "FUNCTION_DEFINITION", "RETURN", "IF",
	"ELSE", "SWITCH", "CASE", "DEFAULT", "FOR", "RANGE", "BREAK", "CONTINUE", "LEN", "PRINT", "INPUT", "COPY",
	"ITOA", "EXISTS", "READ", "WRITE", "PANIC", "AT", "PIPE", "EOF"}

func (t Type) String() string {
	if int(t) < len(typeNames) {
		return typeNames[t]
	}
	return "?"
}

// Words are the reserved words of the token grammar: a word has its special
// type only when the WHOLE maximal identifier equals it.
var Words = map[string]Type{
	"import": Import, "var": VarDefinition, "func": FunctionDefinition, "return": Return,
	"if": If, "else": Else, "switch": Switch, "case": Case, "default": Default, "for": For,
	"range": Range, "break": Break, "continue": Continue, "nil": NilLiteral,
	"len": Len, "print": Print, "input": Input, "copy": Copy, "itoa": Itoa, "exists": Exists,
	"read": Read, "write": Write, "panic": Panic,
	"bool": DataType, "int": DataType, "string": DataType, "error": DataType,
	"true": BoolLiteral, "false": BoolLiteral,
}

// IsBuiltin / IsKeyword classify reserved words for key building.
func IsBuiltin(t Type) bool { return t >= Len && t <= Panic }
func IsKeyword(t Type) bool { return t >= Import && t <= Continue }

var punct2 = map[string]Type{
	"==": CompareOperator, "!=": CompareOperator, "<=": CompareOperator, ">=": CompareOperator,
	"&&": LogicalOperator, "||": LogicalOperator,
	"+=": CompoundAssignOperator, "-=": CompoundAssignOperator, "*=": CompoundAssignOperator,
	"/=": CompoundAssignOperator, "%=": CompoundAssignOperator,
	":=": ShortInitOperator, "++": IncrementOperator, "--": DecrementOperator,
}

var punct1 = map[byte]Type{
	'(': OpeningRoundBracket, ')': ClosingRoundBracket, '[': OpeningSquareBracket, ']': ClosingSquareBracket,
	'{': OpeningCurlyBracket, '}': ClosingCurlyBracket,
	'<': CompareOperator, '>': CompareOperator, '=': AssignOperator, '!': UnaryOperator,
	'+': BinaryOperator, '-': BinaryOperator, '*': BinaryOperator, '/': BinaryOperator, '%': BinaryOperator,
	',': Comma, ':': Colon, ';': Semicolon, '.': Dot, '@': At, '|': Pipe,
}

// Lexeme is one piece of the source. Every byte of the input belongs to
// exactly one lexeme, in order.
type Lexeme struct {
	Type  Type
	Text  string // the source bytes
	Value string // token value: unquoted string content, "\n" for a line end, comment body, else Text
	Off   int    // byte offset of the first character
	Row   int    // 1-based row of the first character
	Col   int    // 1-based BYTE column of the first character
	// Atoms describes the content of strings and comments for key building
	// (set of atom kinds, sorted, '+'-joined); empty for other lexemes.
	Atoms string
	// Bad marks the lexeme at which an expected ERROR arises ("unterminated-istr",
	// "unterminated-rstr", "unknown-char") and the unlexed remainder ("rest").
	Bad string
}

// Unspecified-reason names.
const (
	UUnterminatedBlockComment = "unterminated-block-comment"
	ULoneCR                   = "lone-cr"
	UFloat                    = "float"
	UMinusDigitAfterOperand   = "minus-digit-after-operand"
	UMinusDigitAfterNonValue  = "minus-digit-after-non-value-token"
	ULoneAmp                  = "lone-amp"
	UNonUTF8                  = "non-utf8"
	UUnicodeLetter            = "unicode-letter-outside-string"
	UNewlineInIstr            = "newline-in-interpreted-string"
	UInvalidEscape            = "invalid-escape"
	UDigitLetter              = "digit-glued-to-letter"
	UBomAtStart               = "byte-order-mark-at-file-start"
)

// Result of lexing one input.
type Result struct {
	Lexemes []Lexeme
	// Unspec lists (once each, in order of first occurrence) the reasons why the
	// property does not define the tokenisation of this input. Empty = specified.
	Unspec []string
	// Err is non-empty iff the property demands an error: "unterminated-istr",
	// "unterminated-rstr" or "unknown-char". Lexing stops there; the offending
	// lexeme and (for unknown-char) a "rest" lexeme close the list.
	Err    string
	ErrOff int
	// End position (row/col just after the last byte).
	EndRow, EndCol int
}

// Specified reports that the property defines the outcome (tokens or error).
func (r Result) Specified() bool { return len(r.Unspec) == 0 }

// OnlyUnspec reports whether every unspecified reason is in the allowed set.
func (r Result) OnlyUnspec(allowed ...string) bool {
	for _, u := range r.Unspec {
		ok := false
		for _, a := range allowed {
			if a == u {
				ok = true
			}
		}
		if !ok {
			return false
		}
	}
	return true
}

// Tokens returns the lexemes the parser sees: everything except blanks and
// comments (NEWLINE lexemes are tokens). Lexemes marked Bad are left out.
func (r Result) Tokens() []Lexeme {
	out := make([]Lexeme, 0, len(r.Lexemes))
	for _, l := range r.Lexemes {
		if l.Type == Space || l.Type == Comment || l.Bad != "" {
			continue
		}
		out = append(out, l)
	}
	return out
}

type scanner struct {
	src      string
	i        int
	row, col int
	res      Result
	prev     Type // last significant lexeme type (not Space/Comment); Unknown at start
	prevSet  bool
}

func (s *scanner) unspec(reason string) {
	for _, u := range s.res.Unspec {
		if u == reason {
			return
		}
	}
	s.res.Unspec = append(s.res.Unspec, reason)
}

// emit appends a lexeme covering src[start:s.i] that began at (row, col) and
// advances nothing (the caller already moved s.i / s.row / s.col).
func (s *scanner) emit(t Type, start, row, col int, value, atoms string) {
	s.res.Lexemes = append(s.res.Lexemes, Lexeme{Type: t, Text: s.src[start:s.i], Value: value, Off: start, Row: row, Col: col, Atoms: atoms})
	if t != Space && t != Comment {
		s.prev, s.prevSet = t, true
	}
}

// advance moves over n bytes that contain no line end.
func (s *scanner) advance(n int) { s.i += n; s.col += n }

// lineEndAt reports the byte length of a line end at position i (0 if none).
func (s *scanner) lineEndAt(i int) int {
	if i < len(s.src) {
		if s.src[i] == '\n' {
			return 1
		}
		if s.src[i] == '\r' && i+1 < len(s.src) && s.src[i+1] == '\n' {
			return 2
		}
	}
	return 0
}

func isLetter(c byte) bool { return c == '_' || (c >= 'a' && c <= 'z') || (c >= 'A' && c <= 'Z') }
func isDigit(c byte) bool  { return c >= '0' && c <= '9' }

// operandEnd: after such a token a '-' is a binary operator in Go's grammar.
func operandEnd(t Type) bool {
	switch t {
	case Identifier, NumberLiteral, StringLiteral, BoolLiteral, NilLiteral, DataType,
		ClosingRoundBracket, ClosingSquareBracket, ClosingCurlyBracket,
		IncrementOperator, DecrementOperator:
		return true
	}
	return IsBuiltin(t)
}

type atomSet map[string]bool

func (a atomSet) String() string {
	ks := make([]string, 0, len(a))
	for k := range a {
		ks = append(ks, k)
	}
	// tiny insertion sort (no import of sort needed, sets are small)
	for i := 1; i < len(ks); i++ {
		for j := i; j > 0 && ks[j] < ks[j-1]; j-- {
			ks[j], ks[j-1] = ks[j-1], ks[j]
		}
	}
	return strings.Join(ks, "+")
}

// plainAtom names the atom kind of an unescaped character inside a string or comment.
func plainAtom(r rune, size int) string {
	switch {
	case r == utf8.RuneError && size == 1:
		return "badutf8"
	case r >= 0x80:
		return "utf8-" + string(rune('0'+size))
	case r == '"':
		return "dquote"
	case r == '`':
		return "bquote"
	case r == '\\':
		return "bslash"
	case r == '/':
		return "slash"
	case r == '*':
		return "star"
	case r == '\t':
		return "tab"
	case r == '\r':
		return "cr"
	case r < 0x20 || r == 0x7f:
		return "ctrl"
	}
	return "ascii"
}

// Lex scans the whole input.
func Lex(src string) Result {
	s := &scanner{src: src, row: 1, col: 1}
	for s.i < len(s.src) && s.res.Err == "" {
		s.next()
	}
	s.res.EndRow, s.res.EndCol = s.row, s.col
	return s.res
}

func (s *scanner) fail(kind string, start, row, col int, atoms string) {
	// the offending lexeme runs to the end for unterminated strings, one rune for unknown characters
	s.res.Err, s.res.ErrOff = kind, start
	if kind == "unknown-char" {
		_, size := utf8.DecodeRuneInString(s.src[start:])
		s.res.Lexemes = append(s.res.Lexemes, Lexeme{Type: Unknown, Text: s.src[start : start+size], Off: start, Row: row, Col: col, Bad: kind, Atoms: atoms})
		if start+size < len(s.src) {
			s.res.Lexemes = append(s.res.Lexemes, Lexeme{Type: Unknown, Text: s.src[start+size:], Off: start + size, Row: row, Col: col + size, Bad: "rest"})
		}
	} else {
		s.res.Lexemes = append(s.res.Lexemes, Lexeme{Type: Unknown, Text: s.src[start:], Off: start, Row: row, Col: col, Bad: kind, Atoms: atoms})
	}
	s.i = len(s.src)
}

func (s *scanner) next() {
	src := s.src
	start, row, col := s.i, s.row, s.col
	c := src[s.i]

	// line ends
	if n := s.lineEndAt(s.i); n > 0 {
		s.i += n
		s.row++
		s.col = 1
		s.emit(Newline, start, row, col, "\n", "")
		return
	}
	switch {
	case c == '\r': // lone carriage return: the property does not say
		s.unspec(ULoneCR)
		s.advance(1)
		s.emit(Space, start, row, col, "\r", "")
		return
	case c == ' ' || c == '\t':
		for s.i < len(src) && (src[s.i] == ' ' || src[s.i] == '\t') {
			s.advance(1)
		}
		s.emit(Space, start, row, col, src[start:s.i], "")
		return
	case c == '/' && s.i+1 < len(src) && src[s.i+1] == '/':
		s.lineComment(start, row, col)
		return
	case c == '/' && s.i+1 < len(src) && src[s.i+1] == '*':
		s.blockComment(start, row, col)
		return
	case c == '"':
		s.interpreted(start, row, col)
		return
	case c == '`':
		s.raw(start, row, col)
		return
	case isLetter(c):
		for s.i < len(src) && (isLetter(src[s.i]) || isDigit(src[s.i])) {
			s.advance(1)
		}
		word := src[start:s.i]
		t, ok := Words[word]
		if !ok {
			t = Identifier
		}
		s.emit(t, start, row, col, word, "")
		return
	case isDigit(c):
		s.number(start, row, col)
		return
	case c == '-' && s.i+1 < len(src) && isDigit(src[s.i+1]):
		if s.prevSet && operandEnd(s.prev) {
			// `a-1`, `a -1`: Go reads operator + literal; the repository reads a negative
			// literal. C11 is silent (C12 owns this case); best-effort reading: Go's.
			s.unspec(UMinusDigitAfterOperand)
			switch s.prev {
			case Identifier, NumberLiteral, StringLiteral, BoolLiteral, NilLiteral, ClosingRoundBracket, ClosingSquareBracket:
				// an expression certainly ends here: Go's reading is the only sensible one
			default:
				// after a type name, a builtin's name, '}', '++' or '--' no valid program continues with
				// "-<digit>": nobody specifies how that is split
				s.unspec(UMinusDigitAfterNonValue)
			}
			s.advance(1)
			s.emit(BinaryOperator, start, row, col, "-", "")
			return
		}
		s.advance(1)
		s.number(start, row, col)
		return
	case c == '&':
		if s.i+1 < len(src) && src[s.i+1] == '&' {
			s.advance(2)
			s.emit(LogicalOperator, start, row, col, "&&", "")
			return
		}
		s.unspec(ULoneAmp)
		s.advance(1)
		s.emit(Unknown, start, row, col, "&", "")
		return
	}
	if s.i+1 < len(src) {
		if t, ok := punct2[src[s.i:s.i+2]]; ok {
			s.advance(2)
			s.emit(t, start, row, col, src[start:s.i], "")
			return
		}
	}
	if t, ok := punct1[c]; ok {
		if c == '.' && s.i+1 < len(src) && isDigit(src[s.i+1]) {
			s.unspec(UFloat) // ".5" is a float in Go
		}
		s.advance(1)
		s.emit(t, start, row, col, src[start:s.i], "")
		return
	}
	if c >= 0x80 {
		r, size := utf8.DecodeRuneInString(src[s.i:])
		if r == utf8.RuneError && size == 1 {
			// a byte that is not UTF-8 text, outside strings and comments: no reading of the grammar
			// (the repository's ASCII names, Go's Unicode names) makes it part of a token
			s.fail("unknown-char", start, row, col, "non-utf8-byte")
			return
		}
		if unicode.IsLetter(r) || unicode.IsDigit(r) {
			// Go would make it part of an identifier; the property only fixes ASCII names
			s.unspec(UUnicodeLetter)
			s.advance(size)
			s.emit(Unknown, start, row, col, src[start:s.i], "")
			return
		}
		if r == 0xFEFF && start == 0 {
			// a byte order mark as the very first character: Go's scanner skips it, the property is silent
			s.unspec(UBomAtStart)
		}
		s.fail("unknown-char", start, row, col, "nonascii-symbol")
		return
	}
	kind := "ascii-symbol"
	if c < 0x20 || c == 0x7f {
		kind = "ctrl"
	}
	s.fail("unknown-char", start, row, col, kind)
}

func (s *scanner) number(start, row, col int) {
	src := s.src
	for s.i < len(src) && isDigit(src[s.i]) {
		s.advance(1)
	}
	if s.i < len(src) && src[s.i] == '.' {
		// "1.5" and "1." are floats in Go; the property speaks of integers only
		s.unspec(UFloat)
		if s.i+1 < len(src) && isDigit(src[s.i+1]) {
			s.advance(1)
			for s.i < len(src) && isDigit(src[s.i]) {
				s.advance(1)
			}
		}
	}
	if s.i < len(src) && isLetter(src[s.i]) {
		s.unspec(UDigitLetter) // 0x1F, 1e5, 1_000 are single literals in Go
	}
	s.emit(NumberLiteral, start, row, col, src[start:s.i], "")
}

func (s *scanner) lineComment(start, row, col int) {
	src := s.src
	atoms := atomSet{}
	s.advance(2)
	for s.i < len(src) && s.lineEndAt(s.i) == 0 {
		r, size := utf8.DecodeRuneInString(src[s.i:])
		if r == '\r' {
			s.unspec(ULoneCR)
		}
		atoms[plainAtom(r, size)] = true
		s.advance(size)
	}
	s.emit(Comment, start, row, col, src[start+2:s.i], atoms.String())
}

func (s *scanner) blockComment(start, row, col int) {
	src := s.src
	atoms := atomSet{}
	s.advance(2)
	for {
		if s.i >= len(src) {
			s.unspec(UUnterminatedBlockComment)
			s.emit(Comment, start, row, col, src[start+2:], atoms.String())
			return
		}
		if src[s.i] == '*' && s.i+1 < len(src) && src[s.i+1] == '/' {
			body := src[start+2 : s.i]
			s.advance(2)
			s.emit(Comment, start, row, col, body, atoms.String())
			return
		}
		if n := s.lineEndAt(s.i); n > 0 {
			if n == 2 {
				atoms["crlf"] = true
			} else {
				atoms["nl"] = true
			}
			s.i += n
			s.row++
			s.col = 1
			continue
		}
		r, size := utf8.DecodeRuneInString(src[s.i:])
		if r == '\r' {
			s.unspec(ULoneCR)
		}
		atoms[plainAtom(r, size)] = true
		s.advance(size)
	}
}

func hexVal(c byte) int {
	switch {
	case c >= '0' && c <= '9':
		return int(c - '0')
	case c >= 'a' && c <= 'f':
		return int(c-'a') + 10
	case c >= 'A' && c <= 'F':
		return int(c-'A') + 10
	}
	return -1
}

// escape decodes the escape sequence starting at the backslash src[i]. It
// returns the bytes it denotes, its length in the source, its atom kind and
// whether it is a valid Go escape inside an interpreted string.
func escape(src string, i int) (val string, n int, kind string, ok bool) {
	if i+1 >= len(src) {
		return "", 1, "", false
	}
	c := src[i+1]
	simple := map[byte]byte{'a': 7, 'b': 8, 'f': 12, 'n': 10, 'r': 13, 't': 9, 'v': 11, '\\': '\\', '"': '"'}
	if v, is := simple[c]; is {
		kind = "esc-" + string(c)
		if c == '\\' {
			kind = "esc-bslash"
		} else if c == '"' {
			kind = "esc-dquote"
		}
		return string([]byte{v}), 2, kind, true
	}
	hexN := func(cnt int) (int, bool) {
		if i+2+cnt > len(src) {
			return 0, false
		}
		v := 0
		for k := 0; k < cnt; k++ {
			h := hexVal(src[i+2+k])
			if h < 0 {
				return 0, false
			}
			v = v<<4 | h
		}
		return v, true
	}
	switch {
	case c == 'x':
		if v, is := hexN(2); is {
			return string([]byte{byte(v)}), 4, "esc-x", true
		}
	case c == 'u' || c == 'U':
		cnt := 4
		if c == 'U' {
			cnt = 8
		}
		if v, is := hexN(cnt); is && v <= unicode.MaxRune && !(v >= 0xD800 && v < 0xE000) {
			return string(rune(v)), 2 + cnt, "esc-" + string(c), true
		}
	case c >= '0' && c <= '7':
		if i+4 <= len(src) {
			v := 0
			for k := 1; k <= 3; k++ {
				d := src[i+k]
				if d < '0' || d > '7' {
					return "", 2, "", false
				}
				v = v*8 + int(d-'0')
			}
			if v <= 255 {
				return string([]byte{byte(v)}), 4, "esc-oct", true
			}
		}
	}
	return "", 2, "", false
}

func (s *scanner) interpreted(start, row, col int) {
	src := s.src
	atoms := atomSet{}
	var val []byte
	s.advance(1)
	for {
		if s.i >= len(src) {
			s.fail("unterminated-istr", start, row, col, atoms.String())
			return
		}
		c := src[s.i]
		if c == '"' {
			s.advance(1)
			s.emit(StringLiteral, start, row, col, string(val), atoms.String())
			return
		}
		if n := s.lineEndAt(s.i); n > 0 {
			// Go: "newline in string" (not a literal at all); the repository keeps it.
			s.unspec(UNewlineInIstr)
			atoms["nl"] = true
			val = append(val, '\n')
			s.i += n
			s.row++
			s.col = 1
			continue
		}
		if c == '\\' {
			if s.i+1 >= len(src) {
				s.fail("unterminated-istr", start, row, col, atoms.String())
				return
			}
			v, n, kind, ok := escape(src, s.i)
			if !ok {
				s.unspec(UInvalidEscape)
				atoms["esc-invalid"] = true
				// best effort: skip the backslash and one character
				_, size := utf8.DecodeRuneInString(src[s.i+1:])
				if s.lineEndAt(s.i+1) > 0 {
					size = 0
				}
				s.advance(1 + size)
				continue
			}
			atoms[kind] = true
			val = append(val, v...)
			s.advance(n)
			continue
		}
		r, size := utf8.DecodeRuneInString(src[s.i:])
		if r == utf8.RuneError && size == 1 {
			s.unspec(UNonUTF8)
		}
		if r == '\r' {
			s.unspec(ULoneCR)
		}
		atoms[plainAtom(r, size)] = true
		val = append(val, src[s.i:s.i+size]...)
		s.advance(size)
	}
}

func (s *scanner) raw(start, row, col int) {
	src := s.src
	atoms := atomSet{}
	var val []byte
	s.advance(1)
	for {
		if s.i >= len(src) {
			s.fail("unterminated-rstr", start, row, col, atoms.String())
			return
		}
		if src[s.i] == '`' {
			s.advance(1)
			s.emit(StringLiteral, start, row, col, string(val), atoms.String())
			return
		}
		if n := s.lineEndAt(s.i); n > 0 {
			// Go discards '\r' inside raw strings, so CRLF contributes "\n".
			if n == 2 {
				atoms["crlf"] = true
			} else {
				atoms["nl"] = true
			}
			val = append(val, '\n')
			s.i += n
			s.row++
			s.col = 1
			continue
		}
		r, size := utf8.DecodeRuneInString(src[s.i:])
		if r == utf8.RuneError && size == 1 {
			s.unspec(UNonUTF8)
		}
		if r == '\r' {
			s.unspec(ULoneCR)
		}
		atoms[plainAtom(r, size)] = true
		val = append(val, src[s.i:s.i+size]...)
		s.advance(size)
	}
}

// Kind is the coarse lexeme class used for C12 site kinds: the exact text for
// punctuation and reserved words, a class name otherwise.
func (l Lexeme) Kind() string {
	switch {
	case l.Bad != "":
		return "bad:" + l.Bad
	case l.Type == Identifier:
		return "ident"
	case l.Type == NumberLiteral:
		if strings.HasPrefix(l.Text, "-") {
			return "negint"
		}
		return "int"
	case l.Type == StringLiteral:
		if strings.HasPrefix(l.Text, "`") {
			return "rstr"
		}
		return "istr"
	case l.Type == Newline:
		return "nl"
	case l.Type == Space:
		return "sp"
	case l.Type == Comment:
		if strings.HasPrefix(l.Text, "//") {
			return "linec"
		}
		return "blockc"
	case l.Type == Unknown:
		return "unknown"
	}
	return l.Text
}

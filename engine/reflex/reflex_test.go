package reflex

import (
	"fmt"
	goscanner "go/scanner"
	"go/token"
	"strconv"
	"strings"
	"testing"
)

type tk struct {
	t        Type
	v        string
	row, col int
}

func toks(r Result) []tk {
	var out []tk
	for _, l := range r.Tokens() {
		out = append(out, tk{l.Type, l.Value, l.Row, l.Col})
	}
	return out
}

func TestTable(t *testing.T) {
	cases := []struct {
		src  string
		want []tk
		err  string
		uns  string
	}{
		{src: "trueish nilx format iffy true nil", want: []tk{{Identifier, "trueish", 1, 1}, {Identifier, "nilx", 1, 9}, {Identifier, "format", 1, 14}, {Identifier, "iffy", 1, 21}, {BoolLiteral, "true", 1, 26}, {NilLiteral, "nil", 1, 31}}},
		{src: "/* a */ x /* b */ y", want: []tk{{Identifier, "x", 1, 9}, {Identifier, "y", 1, 19}}},
		{src: "a /* c */ b", want: []tk{{Identifier, "a", 1, 1}, {Identifier, "b", 1, 11}}},
		{src: "/*\n*/ b", want: []tk{{Identifier, "b", 2, 4}}},
		{src: "`a\nb` c\nd", want: []tk{{StringLiteral, "a\nb", 1, 1}, {Identifier, "c", 2, 4}, {Newline, "\n", 2, 5}, {Identifier, "d", 3, 1}}},
		{src: "`a\r\nb`", want: []tk{{StringLiteral, "a\nb", 1, 1}}},
		{src: `"\x41\101\u00e9é" x`, want: []tk{{StringLiteral, "AA\u00e9\u00e9", 1, 1}, {Identifier, "x", 1, 20}}},
		{src: `"\xff"`, want: []tk{{StringLiteral, "\xff", 1, 1}}},
		{src: "a\r\nb", want: []tk{{Identifier, "a", 1, 1}, {Newline, "\n", 1, 2}, {Identifier, "b", 2, 1}}},
		{src: "x := -1", want: []tk{{Identifier, "x", 1, 1}, {ShortInitOperator, ":=", 1, 3}, {NumberLiteral, "-1", 1, 6}}},
		{src: "a - -1", want: []tk{{Identifier, "a", 1, 1}, {BinaryOperator, "-", 1, 3}, {NumberLiteral, "-1", 1, 5}}},
		{src: "a--1", want: []tk{{Identifier, "a", 1, 1}, {DecrementOperator, "--", 1, 2}, {NumberLiteral, "1", 1, 4}}},
		{src: "a-1", uns: UMinusDigitAfterOperand, want: []tk{{Identifier, "a", 1, 1}, {BinaryOperator, "-", 1, 2}, {NumberLiteral, "1", 1, 3}}},
		{src: "f() -1", uns: UMinusDigitAfterOperand},
		{src: "<=>==!=:=:", want: []tk{{CompareOperator, "<=", 1, 1}, {CompareOperator, ">=", 1, 3}, {AssignOperator, "=", 1, 5}, {CompareOperator, "!=", 1, 6}, {ShortInitOperator, ":=", 1, 8}, {Colon, ":", 1, 10}}},
		{src: "a // c\nb", want: []tk{{Identifier, "a", 1, 1}, {Newline, "\n", 1, 7}, {Identifier, "b", 2, 1}}},
		{src: "a // c\r\nb", want: []tk{{Identifier, "a", 1, 1}, {Newline, "\n", 1, 7}, {Identifier, "b", 2, 1}}},
		{src: "\ta", want: []tk{{Identifier, "a", 1, 2}}},
		{src: `"é" x`, want: []tk{{StringLiteral, "é", 1, 1}, {Identifier, "x", 1, 6}}}, // byte columns
		{src: `"abc`, err: "unterminated-istr"},
		{src: "`abc", err: "unterminated-rstr"},
		{src: `"a\`, err: "unterminated-istr"},
		{src: `"\"`, err: "unterminated-istr"},
		{src: "a # b", err: "unknown-char"},
		{src: "a $", err: "unknown-char"},
		{src: "'a'", err: "unknown-char"},
		{src: "a \x00", err: "unknown-char"},
		{src: "a €", err: "unknown-char"},
		{src: "/* a", uns: UUnterminatedBlockComment},
		{src: "/*/", uns: UUnterminatedBlockComment},
		{src: "a\rb", uns: ULoneCR},
		{src: "1.5", uns: UFloat},
		{src: ".5", uns: UFloat},
		{src: "a & b", uns: ULoneAmp},
		{src: "a && b", want: []tk{{Identifier, "a", 1, 1}, {LogicalOperator, "&&", 1, 3}, {Identifier, "b", 1, 6}}},
		{src: "a \xff", err: "unknown-char"},
		{src: "a\xe9", err: "unknown-char"},
		{src: "`\xff`", uns: UNonUTF8},
		{src: "é", uns: UUnicodeLetter},
		{src: "\"a\nb\"", uns: UNewlineInIstr},
		{src: `"\q"`, uns: UInvalidEscape},
		{src: `"\'"`, uns: UInvalidEscape},
		{src: `"\x4"`, uns: UInvalidEscape},
		{src: `"\400"`, uns: UInvalidEscape},
		{src: `"\ud800"`, uns: UInvalidEscape},
		{src: "0x1F", uns: UDigitLetter},
		{src: "007 42", want: []tk{{NumberLiteral, "007", 1, 1}, {NumberLiteral, "42", 1, 5}}},
		{src: "/**/a/**/", want: []tk{{Identifier, "a", 1, 5}}},
		{src: "/***/a", want: []tk{{Identifier, "a", 1, 6}}},
		{src: "a|b||c@d", want: []tk{{Identifier, "a", 1, 1}, {Pipe, "|", 1, 2}, {Identifier, "b", 1, 3}, {LogicalOperator, "||", 1, 4}, {Identifier, "c", 1, 6}, {At, "@", 1, 7}, {Identifier, "d", 1, 8}}},
	}
	for _, c := range cases {
		r := Lex(c.src)
		// every byte accounted for exactly once
		var sb strings.Builder
		for _, l := range r.Lexemes {
			if l.Off != sb.Len() {
				t.Errorf("%q: lexeme offset %d, expected %d", c.src, l.Off, sb.Len())
			}
			sb.WriteString(l.Text)
		}
		if sb.String() != c.src {
			t.Errorf("%q: lexemes do not cover the input: %q", c.src, sb.String())
		}
		if c.uns != "" {
			if len(r.Unspec) == 0 || r.Unspec[0] != c.uns {
				t.Errorf("%q: want unspecified %s, got %v err=%q", c.src, c.uns, r.Unspec, r.Err)
			}
			if c.want == nil {
				continue
			}
		} else if len(r.Unspec) != 0 {
			t.Errorf("%q: unexpectedly unspecified: %v", c.src, r.Unspec)
			continue
		}
		if r.Err != c.err {
			t.Errorf("%q: err=%q want %q", c.src, r.Err, c.err)
			continue
		}
		if c.err != "" {
			continue
		}
		got := toks(r)
		if fmt.Sprint(got) != fmt.Sprint(c.want) {
			t.Errorf("%q:\n got %v\nwant %v", c.src, got, c.want)
		}
	}
}

// goCompatible vocabulary: lexemes whose tokenisation Go and the C11 grammar share.
var goVocab = []string{
	"x", "trueish", "nilx", "format", "iffy", "_a1", "if", "for", "func", "return", "true", "nil", "len", "int",
	"0", "42", "007",
	`""`, `"a"`, `"a b"`, `"\n"`, `"\""`, `"\\"`, `"é"`, `"\x41"`, `"\101"`, `"\u00e9"`, `"//"`, `"/*"`,
	"``", "`r`", "`a\nb`", "`\\n`", "`\"`", "`é`", "`a\r\nb`",
	"(", ")", "[", "]", "{", "}", "==", "!=", "<=", ">=", "<", ">", "&&", "||", "+=", "-=", "*=", "/=", "%=",
	"=", ":=", "++", "--", "!", "+", "-", "*", "/", "%", ",", ":", ";", ".",
	"/* c */", "/**/", "/*\n*/", "/***/",
}

var goSeps = []string{"", " ", "\t", "\n", "\r\n", "/* c */", "// c\n", " \t ", "/*\n\n*/"}

// sharedGoTokens: Go token kinds whose spelling is a token of the C11 grammar too.
var sharedGoTokens = map[token.Token]bool{
	token.IDENT: true, token.INT: true, token.STRING: true,
	token.LPAREN: true, token.RPAREN: true, token.LBRACK: true, token.RBRACK: true, token.LBRACE: true, token.RBRACE: true,
	token.EQL: true, token.NEQ: true, token.LEQ: true, token.GEQ: true, token.LSS: true, token.GTR: true,
	token.LAND: true, token.LOR: true, token.ADD_ASSIGN: true, token.SUB_ASSIGN: true, token.MUL_ASSIGN: true,
	token.QUO_ASSIGN: true, token.REM_ASSIGN: true, token.ASSIGN: true, token.DEFINE: true, token.INC: true, token.DEC: true,
	token.NOT: true, token.ADD: true, token.SUB: true, token.MUL: true, token.QUO: true, token.REM: true,
	token.COMMA: true, token.COLON: true, token.SEMICOLON: true, token.PERIOD: true,
}

type gtok struct {
	text     string
	row, col int
	val      string // unquoted string value ("" otherwise)
	isStr    bool
}

// goScan tokenises with go/scanner; ok=false when the text is not Go-compatible
// (scanner error or a Go-only token such as <<, &^, ..., a float, a rune).
func goScan(src string) (out []gtok, ok bool) {
	fset := token.NewFileSet()
	file := fset.AddFile("", fset.Base(), len(src))
	var sc goscanner.Scanner
	bad := false
	sc.Init(file, []byte(src), func(token.Position, string) { bad = true }, 0)
	for {
		pos, tok, lit := sc.Scan()
		if tok == token.EOF {
			break
		}
		if tok == token.SEMICOLON && lit != ";" {
			continue // automatically inserted
		}
		if tok.IsKeyword() {
			tok, lit = token.IDENT, tok.String()
		}
		if !sharedGoTokens[tok] {
			return nil, false
		}
		p := fset.Position(pos)
		g := gtok{text: lit, row: p.Line, col: p.Column}
		if lit == "" {
			g.text = tok.String()
		}
		if tok == token.STRING {
			v, err := strconv.Unquote(lit)
			if err != nil {
				return nil, false
			}
			g.val, g.isStr = v, true
			g.text = "" // go/scanner strips \r from raw literals; compare values and positions
		}
		out = append(out, g)
	}
	return out, !bad
}

func crossCheck(t *testing.T, src string, stats map[string]int) {
	r := Lex(src)
	g, ok := goScan(src)
	if !ok {
		stats["not-go"]++
		return
	}
	if !r.OnlyUnspec(UMinusDigitAfterOperand) {
		stats["unspecified"]++
		return
	}
	if r.Err != "" {
		t.Errorf("%q: go/scanner accepts, reflex reports %s", src, r.Err)
		return
	}
	var mine []gtok
	for _, l := range r.Tokens() {
		switch {
		case l.Type == Newline:
			continue
		case l.Type == StringLiteral:
			mine = append(mine, gtok{row: l.Row, col: l.Col, val: l.Value, isStr: true})
		case l.Type == NumberLiteral && strings.HasPrefix(l.Text, "-"):
			// Go always reads '-' as an operator
			mine = append(mine, gtok{text: "-", row: l.Row, col: l.Col}, gtok{text: l.Text[1:], row: l.Row, col: l.Col + 1})
		default:
			mine = append(mine, gtok{text: l.Text, row: l.Row, col: l.Col})
		}
	}
	if fmt.Sprint(mine) != fmt.Sprint(g) {
		t.Errorf("%q:\nreflex %v\ngo     %v", src, mine, g)
		return
	}
	stats["compared"]++
}

func TestAgainstGoScanner(t *testing.T) {
	stats := map[string]int{}
	n := len(goVocab)
	for _, a := range goVocab {
		crossCheck(t, a, stats)
		for _, s1 := range goSeps {
			for _, b := range goVocab {
				crossCheck(t, a+s1+b, stats)
			}
		}
	}
	// triples: one separator for both gaps, plus mixed separators on a sub-vocabulary
	for _, a := range goVocab {
		for _, b := range goVocab {
			for _, c := range goVocab {
				for _, s := range goSeps[:7] {
					crossCheck(t, a+s+b+s+c, stats)
				}
			}
		}
	}
	sub := []string{"x", "trueish", "42", `"a"`, "`a\nb`", "-", "=", "==", "/", "*", "/* c */", "(", "."}
	for _, a := range sub {
		for _, b := range sub {
			for _, c := range sub {
				for _, s1 := range goSeps {
					for _, s2 := range goSeps {
						crossCheck(t, a+s1+b+s2+c, stats)
					}
				}
			}
		}
	}
	t.Logf("vocabulary %d, stats %v", n, stats)
	if stats["compared"] < 100000 {
		t.Errorf("cross-check is vacuous: %v", stats)
	}
}

// All interpreted-string bodies of <= 3 atoms: reflex's value must be strconv.Unquote's.
func TestAgainstUnquote(t *testing.T) {
	atoms := []string{"a", " ", "/", "*", "'", "`", `\a`, `\b`, `\f`, `\n`, `\r`, `\t`, `\v`, `\\`, `\"`, `\'`, `\x41`, `\x4`, `\xff`, `\101`, `\400`, `\08`,
		`\u00e9`, `\ud800`, `\U0001F600`, `\U00110000`, `\q`, `\`, "é", "€", "😀", "\xff", "\n", "\"", "x", "4", "1"}
	stats := map[string]int{}
	var rec func(body string, depth int)
	check := func(body string) {
		lit := `"` + body + `"`
		r := Lex(lit)
		whole := len(r.Lexemes) == 1 && r.Lexemes[0].Text == lit && r.Err == ""
		v, err := strconv.Unquote(lit)
		switch {
		case err == nil && strings.Contains(body, "\xff"):
			// strconv replaces invalid UTF-8 by U+FFFD; the Go compiler rejects the source; unspecified here
			if r.Specified() {
				t.Errorf("%q: invalid UTF-8 must be unspecified", lit)
			}
			stats["badutf8"]++
		case err == nil:
			if !whole || !r.Specified() {
				t.Errorf("%q: Unquote accepts (%q) but reflex: lexemes=%d unspec=%v err=%q", lit, v, len(r.Lexemes), r.Unspec, r.Err)
			} else if r.Lexemes[0].Value != v {
				t.Errorf("%q: value %q, Unquote says %q", lit, r.Lexemes[0].Value, v)
			}
			stats["equal"]++
		default:
			// not a Go literal: reflex must not claim a specified single string token
			if whole && r.Specified() {
				t.Errorf("%q: Unquote rejects but reflex yields a specified string %q", lit, r.Lexemes[0].Value)
			}
			stats["rejected"]++
		}
		// raw form
		if !strings.Contains(body, "`") {
			raw := "`" + body + "`"
			rr := Lex(raw)
			rv, rerr := strconv.Unquote(raw)
			if rerr != nil {
				t.Fatalf("raw %q: %v", raw, rerr)
			}
			if strings.Contains(body, "\xff") {
				if rr.Specified() {
					t.Errorf("%q: invalid UTF-8 must be unspecified", raw)
				}
			} else if !rr.Specified() || rr.Err != "" || len(rr.Lexemes) != 1 || rr.Lexemes[0].Value != rv {
				t.Errorf("raw %q: reflex %+v, Unquote %q", raw, rr, rv)
			}
			stats["raw"]++
		}
	}
	rec = func(body string, depth int) {
		check(body)
		if depth == 3 {
			return
		}
		for _, a := range atoms {
			rec(body+a, depth+1)
		}
	}
	rec("", 0)
	t.Logf("stats %v", stats)
	if stats["equal"] < 1000 || stats["rejected"] < 1000 {
		t.Errorf("vacuous: %v", stats)
	}
}

// Package tsmodel is the reference model of the TypeShell language used by the
// checks: an AST, a printer, an interpreter with Go's meaning plus the
// deviations the README documents, and typing/scoping oracles. Nothing in this
// package imports the repository's code.
package tsmodel

// Type is a TypeShell value type.
type Type struct {
	Base  string // "int", "bool", "string" ("error" prints as error but is string)
	Slice bool
}

var (
	TInt  = Type{Base: "int"}
	TBool = Type{Base: "bool"}
	TStr  = Type{Base: "string"}
)

func (t Type) String() string {
	if t.Slice {
		return "[]" + t.Base
	}
	return t.Base
}

func (t Type) Elem() Type { return Type{Base: t.Base} }

// ---------------------------------------------------------------- expressions

type Expr interface{}

type IntLit struct{ V int64 }
type BoolLit struct{ V bool }
type StrLit struct {
	V   string
	Raw bool
}
type NilLit struct{}
type Var struct{ Name string }
type Unary struct {
	Op string // "!"
	X  Expr
}
type Binary struct {
	Op   string // + - * / % == != < <= > >= && ||
	L, R Expr
}
type Group struct{ X Expr }
type Call struct {
	Alias string
	Fn    string
	Args  []Expr
}
type Len struct{ X Expr }
type Itoa struct{ X Expr }
type Index struct{ X, I Expr } // slice element or string character
type Substr struct {
	X      Expr
	Lo, Hi Expr // nil = absent
}
type SliceLit struct {
	Elem  Type
	Elems []Expr
}
type CopyE struct {
	Dst string
	Src Expr
}
type ReadE struct{ Path Expr }
type ExistsE struct{ Path Expr }
type InputE struct{ Prompt Expr }

// ----------------------------------------------------------------- statements

type Stmt interface{}

const (
	DefShort     = iota // a, b := v, w
	DefVarType          // var a, b T
	DefVarTypeIn        // var a T = v
	DefVarInit          // var a = v
)

type Define struct {
	Names []string
	Form  int
	T     Type
	Vals  []Expr
}
type Assign struct {
	Names []string
	Vals  []Expr
}
type OpAssign struct {
	Name string
	Op   string // "+", "-", "*", "/", "%"
	Val  Expr
}
type IncDec struct {
	Name string
	Inc  bool
}
type SliceSet struct {
	Name   string
	I, Val Expr
}
type ElseIf struct {
	Cond Expr
	Body []Stmt
}
type If struct {
	Cond    Expr
	Then    []Stmt
	Elifs   []ElseIf
	Else    []Stmt
	HasElse bool
}
type Case struct {
	Val     Expr // nil for default
	Default bool
	Body    []Stmt
}
type Switch struct {
	Tag   Expr // nil = tagless
	Cases []Case
}
type For struct {
	Init Stmt // nil = absent
	Cond Expr // nil = absent
	Post Stmt // nil = absent
	// Three selects the three-part spelling even when Init and Post are nil
	// ("for ; c; {"). Otherwise "for c {" or "for {".
	Three bool
	Body  []Stmt
}
type ForRange struct {
	I, V string // V may be ""
	X    Expr
	Body []Stmt
}
type Break struct{}
type Continue struct{}
type Print struct{ Args []Expr }
type Panic struct{ X Expr }
type Return struct{ Vals []Expr }
type ExprStmt struct{ X Expr }
type Param struct {
	Name string
	T    Type
}
type FuncDef struct {
	Name   string
	Params []Param
	Rets   []Type
	Body   []Stmt
}
type Write struct {
	Path, Data Expr
	Append     Expr // nil = absent
}

// Raw is an escape hatch: literal source lines (used by generators for
// constructs outside the model, never interpreted).
type Raw struct{ Text string }

type Import struct {
	Alias string
	Path  string
}

type Prog struct {
	Imports []Import
	Stmts   []Stmt
}

package tsmodel

import (
	"fmt"
	"strconv"
	"strings"
)

// Value is int64, bool, string or *SliceV.
type Value interface{}

type SliceV struct {
	Elem Type
	E    []Value
}

// Undefined is raised (as a Go panic, recovered by Run) when a program steps
// into a situation the properties exclude as undefined or unspecified. Such
// programs are skipped and counted by the checks, never judged.
type Undefined struct{ Why string }

type exitSignal struct{ code int }

type ctrl int

const (
	cNone ctrl = iota
	cBreak
	cContinue
	cReturn
)

type frame struct {
	vars   map[string]*Value
	parent *frame
}

func isPublicName(n string) bool { return n != "" && n[0] >= 'A' && n[0] <= 'Z' }

func newFrame(parent *frame) *frame { return &frame{vars: map[string]*Value{}, parent: parent} }

func (f *frame) lookup(name string) *Value {
	for fr := f; fr != nil; fr = fr.parent {
		if v, ok := fr.vars[name]; ok {
			return v
		}
	}
	return nil
}

func (f *frame) define(name string, v Value) {
	vv := v
	f.vars[name] = &vv
}

type module struct {
	globals *frame
	funcs   map[string]*FuncDef
	imports map[string]*module // alias -> module
	ran     bool
	kept    *frame // RerunImports only: the globals of the previous run of this module's top-level code
}

// Interp evaluates programs of the model AST.
type Interp struct {
	Width    int // 64 (Bash) or 32 (Batch)
	Out      strings.Builder
	FS       map[string]string
	Stdin    []string
	MaxSteps int
	// RerunImports models a KNOWN DEFECT, never the expected behaviour: a file that is imported again (a
	// second alias, a second import path) has its top-level code executed again, on fresh values of the
	// variables it defines. Checks use it only to recognise exactly that failure shape.
	RerunImports bool
	// Loader resolves an import path (relative to the importing file's name) to a program.
	Loader func(from, path string) (name string, p *Prog)

	steps   int
	mods    map[string]*module
	cur     *module
	retVals []Value
	// Overflow32 is set when Width==64 and some intermediate integer left the
	// 32-bit range (used to decide whether Bash and Batch must agree).
	Overflow32 bool
}

// Obs is the observation the properties speak about.
type Obs struct {
	Stdout    string
	Exit      int
	Undefined string // non-empty: program left the defined fragment (reason)
	FS        map[string]string
}

func (in *Interp) undefined(format string, a ...interface{}) {
	panic(Undefined{fmt.Sprintf(format, a...)})
}

func (in *Interp) tick() {
	in.steps++
	if in.MaxSteps > 0 && in.steps > in.MaxSteps {
		in.undefined("step budget exceeded (non-terminating or too long)")
	}
}

// Run executes a single-file program.
func (in *Interp) Run(p *Prog) Obs {
	return in.RunNamed("main.tsh", p)
}

func (in *Interp) RunNamed(name string, p *Prog) (obs Obs) {
	if in.Width == 0 {
		in.Width = 64
	}
	if in.MaxSteps == 0 {
		in.MaxSteps = 2000000
	}
	if in.FS == nil {
		in.FS = map[string]string{}
	}
	in.mods = map[string]*module{}
	defer func() {
		if r := recover(); r != nil {
			switch x := r.(type) {
			case Undefined:
				obs = Obs{Stdout: in.Out.String(), Undefined: x.Why, FS: in.FS}
			case exitSignal:
				obs = Obs{Stdout: in.Out.String(), Exit: x.code, FS: in.FS}
			default:
				panic(r)
			}
		}
	}()
	in.runModule(name, p)
	return Obs{Stdout: in.Out.String(), Exit: 0, FS: in.FS}
}

func (in *Interp) runModule(name string, p *Prog) *module {
	m, again := in.mods[name]
	if again && !in.RerunImports {
		return m
	}
	if again {
		// (defect model) the definitions of PUBLIC globals are dropped the second time - their values stay -,
		// every other top-level statement runs again
		m.kept = m.globals
		m.globals = newFrame(nil)
	} else {
		m = &module{globals: newFrame(nil), funcs: map[string]*FuncDef{}, imports: map[string]*module{}}
		in.mods[name] = m
	}
	for _, im := range p.Imports {
		if in.Loader == nil {
			in.undefined("import without loader")
		}
		iname, ip := in.Loader(name, im.Path)
		if ip == nil {
			in.undefined("import %q not resolvable in model", im.Path)
		}
		alias := im.Alias
		if alias == "" {
			alias = strings.TrimSuffix(im.Path, ".tsh")
		}
		m.imports[alias] = in.runModule(iname, ip)
	}
	saved := in.cur
	in.cur = m
	c := in.execBlock(p.Stmts, m.globals)
	if c != cNone {
		in.undefined("control statement escaped top level")
	}
	in.cur = saved
	return m
}

func (in *Interp) wrap(v int64) int64 {
	if in.Width == 32 {
		return int64(int32(v))
	}
	if v > 2147483647 || v < -2147483648 {
		in.Overflow32 = true
	}
	return v
}

func zeroOf(t Type) Value {
	if t.Slice {
		return &SliceV{Elem: t.Elem()}
	}
	switch t.Base {
	case "int":
		return int64(0)
	case "bool":
		return false
	}
	return ""
}

// Format renders a value the way print shows it.
func Format(v Value) string {
	switch x := v.(type) {
	case int64:
		return strconv.FormatInt(x, 10)
	case bool:
		if x {
			return "1"
		}
		return "0"
	case string:
		return x
	}
	panic(Undefined{"print of a non-scalar value"})
}

func (in *Interp) evalMulti(e Expr, fr *frame) []Value {
	if c, ok := e.(Call); ok {
		return in.call(c, fr)
	}
	return []Value{in.eval(e, fr)}
}

func (in *Interp) eval(e Expr, fr *frame) Value {
	in.tick()
	switch x := e.(type) {
	case IntLit:
		return in.wrap(x.V)
	case BoolLit:
		return x.V
	case StrLit:
		return x.V
	case NilLit:
		return ""
	case Var:
		p := fr.lookup(x.Name)
		if p == nil {
			in.undefined("model: variable %s not defined", x.Name)
		}
		return *p
	case Group:
		return in.eval(x.X, fr)
	case Unary:
		v := in.eval(x.X, fr)
		return !v.(bool)
	case Binary:
		l := in.eval(x.L, fr)
		r := in.eval(x.R, fr) // eager: both operands always evaluated (README)
		return in.binop(x.Op, l, r)
	case Call:
		vs := in.call(x, fr)
		if len(vs) != 1 {
			in.undefined("model: call of %s used as single value returns %d values", x.Fn, len(vs))
		}
		return vs[0]
	case Len:
		v := in.eval(x.X, fr)
		switch y := v.(type) {
		case string:
			return int64(len(y))
		case *SliceV:
			return int64(len(y.E))
		}
		in.undefined("model: len of non-sequence")
	case Itoa:
		return strconv.FormatInt(in.eval(x.X, fr).(int64), 10)
	case Index:
		v := in.eval(x.X, fr)
		i := in.eval(x.I, fr).(int64)
		switch y := v.(type) {
		case string:
			if i < 0 || i >= int64(len(y)) {
				in.undefined("string index out of range")
			}
			return string(y[i])
		case *SliceV:
			if i < 0 || i >= int64(len(y.E)) {
				in.undefined("slice index out of range")
			}
			return y.E[i]
		}
		in.undefined("model: index of non-sequence")
	case Substr:
		// TypeShell evaluates the indices before the string operand; the
		// order is only observable with effects, where Go's order (operand,
		// lo, hi) is the reference.
		s := in.eval(x.X, fr).(string)
		lo, hi := int64(0), int64(len(s))
		if x.Lo != nil {
			lo = in.eval(x.Lo, fr).(int64)
		}
		if x.Hi != nil {
			hi = in.eval(x.Hi, fr).(int64)
		}
		if lo < 0 || hi > int64(len(s)) || lo > hi {
			in.undefined("substring indices out of range")
		}
		return s[lo:hi]
	case SliceLit:
		sv := &SliceV{Elem: x.Elem}
		for _, el := range x.Elems {
			sv.E = append(sv.E, in.eval(el, fr))
		}
		return sv
	case CopyE:
		src := in.eval(x.Src, fr).(*SliceV)
		dp := fr.lookup(x.Dst)
		if dp == nil {
			in.undefined("model: copy destination undefined")
		}
		dst := (*dp).(*SliceV)
		if len(dst.E) > len(src.E) {
			in.undefined("copy into a longer destination")
		}
		if dst != src {
			dst.E = append(dst.E[:0], src.E...)
		}
		return int64(len(src.E))
	case ReadE:
		p := in.eval(x.Path, fr).(string)
		c, ok := in.FS[p]
		if !ok {
			in.undefined("read of a missing file")
		}
		return strings.TrimSuffix(c, "\n")
	case ExistsE:
		p := in.eval(x.Path, fr).(string)
		_, ok := in.FS[p]
		return ok
	case InputE:
		if x.Prompt != nil {
			in.eval(x.Prompt, fr)
		}
		if len(in.Stdin) == 0 {
			in.undefined("input at end of stdin")
		}
		l := in.Stdin[0]
		in.Stdin = in.Stdin[1:]
		return l
	}
	panic(fmt.Sprintf("eval: unknown node %T", e))
}

func (in *Interp) binop(op string, l, r Value) Value {
	switch op {
	case "&&":
		return l.(bool) && r.(bool)
	case "||":
		return l.(bool) || r.(bool)
	case "==":
		return l == r
	case "!=":
		return l != r
	}
	switch a := l.(type) {
	case string:
		b := r.(string)
		switch op {
		case "+":
			return a + b
		}
		in.undefined("ordering comparison of strings is unspecified")
	case int64:
		b := r.(int64)
		switch op {
		case "+":
			return in.wrap(a + b)
		case "-":
			return in.wrap(a - b)
		case "*":
			return in.wrap(a * b)
		case "/":
			if b == 0 {
				in.undefined("division by zero")
			}
			if in.Width == 32 && a == -2147483648 && b == -1 {
				in.undefined("INT_MIN / -1 is unmodelled for 32 bit")
			}
			if b == -1 { // avoid Go's own overflow corner: wraps to MinInt64
				return in.wrap(-a)
			}
			return in.wrap(a / b)
		case "%":
			if b == 0 {
				in.undefined("modulo by zero")
			}
			if b == -1 {
				return int64(0)
			}
			return in.wrap(a % b)
		case "<":
			return a < b
		case "<=":
			return a <= b
		case ">":
			return a > b
		case ">=":
			return a >= b
		}
	}
	panic(fmt.Sprintf("binop: bad operands for %s: %T %T", op, l, r))
}

func (in *Interp) findFunc(c Call) (*FuncDef, *module) {
	m := in.cur
	if c.Alias != "" {
		mm, ok := m.imports[c.Alias]
		if !ok {
			in.undefined("model: unknown import alias %s", c.Alias)
		}
		m = mm
	}
	f, ok := m.funcs[c.Fn]
	if !ok {
		in.undefined("model: function %s not defined", c.Fn)
	}
	return f, m
}

func (in *Interp) call(c Call, fr *frame) []Value {
	in.tick()
	f, m := in.findFunc(c)
	args := make([]Value, len(c.Args))
	for i, a := range c.Args {
		args[i] = in.eval(a, fr)
	}
	cf := newFrame(m.globals)
	for i, p := range f.Params {
		cf.define(p.Name, args[i])
	}
	saved := in.cur
	in.cur = m
	in.retVals = nil
	ct := in.execBlock(f.Body, newFrame(cf))
	in.cur = saved
	if ct == cBreak || ct == cContinue {
		in.undefined("model: break/continue escaped function")
	}
	rv := in.retVals
	in.retVals = nil
	if len(rv) != len(f.Rets) {
		in.undefined("model: function %s fell off its end", f.Name)
	}
	return rv
}

func (in *Interp) assignTo(fr *frame, name string, v Value) {
	p := fr.lookup(name)
	if p == nil {
		in.undefined("model: assignment to undefined %s", name)
	}
	*p = v
}

func (in *Interp) execBlock(body []Stmt, fr *frame) ctrl {
	for _, s := range body {
		if c := in.exec(s, fr); c != cNone {
			return c
		}
	}
	return cNone
}

func (in *Interp) exec(s Stmt, fr *frame) ctrl {
	in.tick()
	switch x := s.(type) {
	case Define:
		if in.RerunImports && in.cur != nil && in.cur.kept != nil && fr == in.cur.globals && len(x.Names) == 1 && isPublicName(x.Names[0]) {
			if old, ok := in.cur.kept.vars[x.Names[0]]; ok {
				fr.vars[x.Names[0]] = old
				break
			}
		}
		var vals []Value
		if len(x.Vals) == 0 {
			for range x.Names {
				vals = append(vals, zeroOf(x.T))
			}
		} else if len(x.Vals) == 1 && len(x.Names) > 1 {
			vals = in.evalMulti(x.Vals[0], fr)
		} else {
			for _, e := range x.Vals {
				vals = append(vals, in.eval(e, fr))
			}
		}
		if len(vals) != len(x.Names) {
			in.undefined("model: definition arity mismatch")
		}
		for i, n := range x.Names {
			if _, ok := fr.vars[n]; ok {
				// partial redefinition with := assigns the existing variable
				*fr.vars[n] = vals[i]
			} else {
				fr.define(n, vals[i])
			}
		}
	case Assign:
		var vals []Value
		if len(x.Vals) == 1 && len(x.Names) > 1 {
			vals = in.evalMulti(x.Vals[0], fr)
		} else {
			for _, e := range x.Vals {
				vals = append(vals, in.eval(e, fr))
			}
		}
		if len(vals) != len(x.Names) {
			in.undefined("model: assignment arity mismatch")
		}
		for i, n := range x.Names {
			in.assignTo(fr, n, vals[i])
		}
	case OpAssign:
		p := fr.lookup(x.Name)
		if p == nil {
			in.undefined("model: %s undefined", x.Name)
		}
		l := *p
		r := in.eval(x.Val, fr)
		*fr.lookup(x.Name) = in.binop(x.Op, l, r)
	case IncDec:
		p := fr.lookup(x.Name)
		if p == nil {
			in.undefined("model: %s undefined", x.Name)
		}
		d := int64(1)
		if !x.Inc {
			d = -1
		}
		*p = in.wrap((*p).(int64) + d)
	case SliceSet:
		p := fr.lookup(x.Name)
		if p == nil {
			in.undefined("model: %s undefined", x.Name)
		}
		i := in.eval(x.I, fr).(int64)
		v := in.eval(x.Val, fr)
		sv := (*fr.lookup(x.Name)).(*SliceV)
		if i < 0 {
			in.undefined("negative slice index")
		}
		if i > 100000 {
			in.undefined("model: slice index too large")
		}
		for int64(len(sv.E)) < i {
			sv.E = append(sv.E, zeroOf(sv.Elem))
		}
		if int64(len(sv.E)) == i {
			sv.E = append(sv.E, v)
		} else {
			sv.E[i] = v
		}
	case If:
		// All conditions of the chain are evaluated before any body (README).
		conds := []bool{in.eval(x.Cond, fr).(bool)}
		for _, ei := range x.Elifs {
			conds = append(conds, in.eval(ei.Cond, fr).(bool))
		}
		if conds[0] {
			return in.execBlock(x.Then, newFrame(fr))
		}
		for i, ei := range x.Elifs {
			if conds[i+1] {
				return in.execBlock(ei.Body, newFrame(fr))
			}
		}
		if x.HasElse {
			return in.execBlock(x.Else, newFrame(fr))
		}
	case Switch:
		// Cases are tried in source order, default last wherever it is
		// written; all case expressions are evaluated before any body.
		var hits []bool
		for _, c := range x.Cases {
			if c.Default {
				hits = append(hits, false)
				continue
			}
			var tag Value = true
			if x.Tag != nil {
				tag = in.eval(x.Tag, fr)
			}
			hits = append(hits, tag == in.eval(c.Val, fr))
		}
		chosen := -1
		for i, h := range hits {
			if h {
				chosen = i
				break
			}
		}
		if chosen < 0 {
			for i, c := range x.Cases {
				if c.Default {
					chosen = i
				}
			}
		}
		if chosen >= 0 {
			c := in.execBlock(x.Cases[chosen].Body, newFrame(fr))
			if c == cBreak {
				in.undefined("break inside a switch")
			}
			return c
		}
	case For:
		hf := newFrame(fr)
		if x.Init != nil {
			if c := in.exec(x.Init, hf); c != cNone {
				return c
			}
		}
		for first := true; ; first = false {
			in.tick()
			if !first && x.Post != nil {
				in.exec(x.Post, hf)
			}
			if x.Cond != nil && !in.eval(x.Cond, hf).(bool) {
				break
			}
			c := in.execBlock(x.Body, newFrame(hf))
			if c == cBreak {
				break
			}
			if c == cReturn {
				return c
			}
		}
	case ForRange:
		seq := in.eval(x.X, fr)
		n := 0
		switch y := seq.(type) {
		case string:
			n = len(y)
		case *SliceV:
			n = len(y.E)
		default:
			in.undefined("model: range over non-sequence")
		}
		for i := 0; i < n; i++ {
			in.tick()
			bf := newFrame(fr)
			bf.define(x.I, int64(i))
			switch y := seq.(type) {
			case string:
				if x.V != "" {
					bf.define(x.V, string(y[i]))
				}
			case *SliceV:
				if len(y.E) != n {
					in.undefined("slice resized while ranging over it")
				}
				if x.V != "" {
					bf.define(x.V, y.E[i])
				}
			}
			c := in.execBlock(x.Body, newFrame(bf))
			if v, ok := x.X.(Var); ok {
				// TypeShell re-reads the operand every iteration; Go reads it
				// once. Reassigning it inside the loop is outside the fragment.
				if p := fr.lookup(v.Name); p == nil || !sameSeq(*p, seq) {
					in.undefined("range operand reassigned inside the loop")
				}
			}
			if sv, ok := seq.(*SliceV); ok && len(sv.E) != n {
				in.undefined("slice resized while ranging over it")
			}
			if c == cBreak {
				break
			}
			if c == cReturn {
				return c
			}
		}
	case Break:
		return cBreak
	case Continue:
		return cContinue
	case Print:
		parts := make([]string, len(x.Args))
		for i, a := range x.Args {
			parts[i] = Format(in.eval(a, fr))
		}
		in.Out.WriteString(strings.Join(parts, " "))
		in.Out.WriteByte('\n')
	case Panic:
		v := in.eval(x.X, fr)
		in.Out.WriteString("panic: " + Format(v) + "\n")
		panic(exitSignal{1})
	case Return:
		var vals []Value
		for _, e := range x.Vals {
			vals = append(vals, in.eval(e, fr))
		}
		in.retVals = vals
		return cReturn
	case ExprStmt:
		if c, ok := x.X.(Call); ok {
			in.call(c, fr)
		} else {
			in.eval(x.X, fr)
		}
	case FuncDef:
		f := x
		in.cur.funcs[x.Name] = &f
	case Write:
		p := in.eval(x.Path, fr).(string)
		d := in.eval(x.Data, fr).(string)
		app := false
		if x.Append != nil {
			app = in.eval(x.Append, fr).(bool)
		}
		if app {
			in.FS[p] = in.FS[p] + d + "\n"
		} else {
			in.FS[p] = d + "\n"
		}
	case Raw:
		in.undefined("model: raw text is not interpretable")
	default:
		panic(fmt.Sprintf("exec: unknown node %T", s))
	}
	return cNone
}

func sameSeq(a, b Value) bool {
	switch x := a.(type) {
	case string:
		y, ok := b.(string)
		return ok && x == y
	case *SliceV:
		y, ok := b.(*SliceV)
		return ok && x == y
	}
	return false
}

package tsmodel

import (
	"fmt"
	"strconv"
	"strings"
)

// Go's binary operator precedence (https://go.dev/ref/spec#Operator_precedence).
// The printer derives parenthesisation from this table only.
func Prec(op string) int {
	switch op {
	case "||":
		return 1
	case "&&":
		return 2
	case "==", "!=", "<", "<=", ">", ">=":
		return 3
	case "+", "-":
		return 4
	case "*", "/", "%":
		return 5
	}
	return 0
}

func exprPrec(e Expr) int {
	switch x := e.(type) {
	case Binary:
		return Prec(x.Op)
	case Unary:
		return 6
	}
	return 7
}

// Quote renders a string value as an interpreted TypeShell/Go literal.
func Quote(s string) string {
	var b strings.Builder
	b.WriteByte('"')
	for i := 0; i < len(s); i++ {
		c := s[i]
		switch c {
		case '"':
			b.WriteString(`\"`)
		case '\\':
			b.WriteString(`\\`)
		case '\n':
			b.WriteString(`\n`)
		case '\t':
			b.WriteString(`\t`)
		case '\r':
			b.WriteString(`\r`)
		default:
			b.WriteByte(c)
		}
	}
	b.WriteByte('"')
	return b.String()
}

func PrintExpr(e Expr) string {
	switch x := e.(type) {
	case IntLit:
		return strconv.FormatInt(x.V, 10)
	case BoolLit:
		if x.V {
			return "true"
		}
		return "false"
	case StrLit:
		if x.Raw {
			return "`" + x.V + "`"
		}
		return Quote(x.V)
	case NilLit:
		return "nil"
	case Var:
		return x.Name
	case Group:
		return "(" + PrintExpr(x.X) + ")"
	case Unary:
		in := PrintExpr(x.X)
		if exprPrec(x.X) < 6 {
			in = "(" + in + ")"
		}
		return x.Op + in
	case Binary:
		p := Prec(x.Op)
		l, r := PrintExpr(x.L), PrintExpr(x.R)
		if exprPrec(x.L) < p {
			l = "(" + l + ")"
		}
		if exprPrec(x.R) <= p {
			r = "(" + r + ")"
		}
		return l + " " + x.Op + " " + r
	case Call:
		n := x.Fn
		if x.Alias != "" {
			n = x.Alias + "." + n
		}
		return n + "(" + printExprs(x.Args) + ")"
	case Len:
		return "len(" + PrintExpr(x.X) + ")"
	case Itoa:
		return "itoa(" + PrintExpr(x.X) + ")"
	case Index:
		return PrintExpr(x.X) + "[" + PrintExpr(x.I) + "]"
	case Substr:
		lo, hi := "", ""
		if x.Lo != nil {
			lo = PrintExpr(x.Lo)
		}
		if x.Hi != nil {
			hi = PrintExpr(x.Hi)
		}
		return PrintExpr(x.X) + "[" + lo + ":" + hi + "]"
	case SliceLit:
		return "[]" + x.Elem.Base + "{" + printExprs(x.Elems) + "}"
	case CopyE:
		return "copy(" + x.Dst + ", " + PrintExpr(x.Src) + ")"
	case ReadE:
		return "read(" + PrintExpr(x.Path) + ")"
	case ExistsE:
		return "exists(" + PrintExpr(x.Path) + ")"
	case InputE:
		if x.Prompt == nil {
			return "input()"
		}
		return "input(" + PrintExpr(x.Prompt) + ")"
	}
	panic(fmt.Sprintf("PrintExpr: unknown node %T", e))
}

func printExprs(es []Expr) string {
	parts := make([]string, len(es))
	for i, e := range es {
		parts[i] = PrintExpr(e)
	}
	return strings.Join(parts, ", ")
}

type printer struct {
	b   strings.Builder
	ind int
}

func (p *printer) line(s string) {
	for i := 0; i < p.ind; i++ {
		p.b.WriteByte('\t')
	}
	p.b.WriteString(s)
	p.b.WriteByte('\n')
}

// PrintSimple renders a statement that fits on one line (usable in a for header).
func PrintSimple(s Stmt) string {
	switch x := s.(type) {
	case Define:
		names := strings.Join(x.Names, ", ")
		switch x.Form {
		case DefShort:
			return names + " := " + printExprs(x.Vals)
		case DefVarType:
			return "var " + names + " " + x.T.String()
		case DefVarTypeIn:
			return "var " + names + " " + x.T.String() + " = " + printExprs(x.Vals)
		case DefVarInit:
			return "var " + names + " = " + printExprs(x.Vals)
		}
	case Assign:
		return strings.Join(x.Names, ", ") + " = " + printExprs(x.Vals)
	case OpAssign:
		return x.Name + " " + x.Op + "= " + PrintExpr(x.Val)
	case IncDec:
		if x.Inc {
			return x.Name + "++"
		}
		return x.Name + "--"
	case SliceSet:
		return x.Name + "[" + PrintExpr(x.I) + "] = " + PrintExpr(x.Val)
	case Break:
		return "break"
	case Continue:
		return "continue"
	case Print:
		return "print(" + printExprs(x.Args) + ")"
	case Panic:
		return "panic(" + PrintExpr(x.X) + ")"
	case Return:
		return "return " + printExprs(x.Vals)
	case ExprStmt:
		return PrintExpr(x.X)
	case Write:
		s := "write(" + PrintExpr(x.Path) + ", " + PrintExpr(x.Data)
		if x.Append != nil {
			s += ", " + PrintExpr(x.Append)
		}
		return s + ")"
	case Raw:
		return x.Text
	}
	panic(fmt.Sprintf("PrintSimple: not a simple statement %T", s))
}

func (p *printer) block(body []Stmt) {
	p.ind++
	for _, s := range body {
		p.stmt(s)
	}
	p.ind--
}

func (p *printer) stmt(s Stmt) {
	switch x := s.(type) {
	case If:
		p.line("if " + PrintExpr(x.Cond) + " {")
		p.block(x.Then)
		for _, ei := range x.Elifs {
			p.line("} else if " + PrintExpr(ei.Cond) + " {")
			p.block(ei.Body)
		}
		if x.HasElse {
			p.line("} else {")
			p.block(x.Else)
		}
		p.line("}")
	case Switch:
		if x.Tag == nil {
			p.line("switch {")
		} else {
			p.line("switch " + PrintExpr(x.Tag) + " {")
		}
		for _, c := range x.Cases {
			if c.Default {
				p.line("default:")
			} else {
				p.line("case " + PrintExpr(c.Val) + ":")
			}
			p.block(c.Body)
		}
		p.line("}")
	case For:
		switch {
		case x.Three || x.Init != nil || x.Post != nil:
			h := "for "
			if x.Init != nil {
				h += PrintSimple(x.Init)
			}
			h += ";"
			if x.Cond != nil {
				h += " " + PrintExpr(x.Cond)
			}
			h += ";"
			if x.Post != nil {
				h += " " + PrintSimple(x.Post)
			}
			p.line(h + " {")
		case x.Cond != nil:
			p.line("for " + PrintExpr(x.Cond) + " {")
		default:
			p.line("for {")
		}
		p.block(x.Body)
		p.line("}")
	case ForRange:
		h := "for " + x.I
		if x.V != "" {
			h += ", " + x.V
		}
		p.line(h + " := range " + PrintExpr(x.X) + " {")
		p.block(x.Body)
		p.line("}")
	case FuncDef:
		params := make([]string, len(x.Params))
		for i, pa := range x.Params {
			params[i] = pa.Name + " " + pa.T.String()
		}
		h := "func " + x.Name + "(" + strings.Join(params, ", ") + ")"
		switch len(x.Rets) {
		case 0:
		case 1:
			h += " " + x.Rets[0].String()
		default:
			rs := make([]string, len(x.Rets))
			for i, r := range x.Rets {
				rs[i] = r.String()
			}
			h += " (" + strings.Join(rs, ", ") + ")"
		}
		p.line(h + " {")
		p.block(x.Body)
		p.line("}")
	default:
		p.line(PrintSimple(s))
	}
}

// PrintStmts renders a statement list in canonical layout (tabs, LF).
func PrintStmts(body []Stmt) string {
	p := &printer{}
	for _, s := range body {
		p.stmt(s)
	}
	return p.b.String()
}

// PrintProg renders a whole program in canonical layout.
func PrintProg(pr Prog) string {
	p := &printer{}
	if len(pr.Imports) > 0 {
		p.line("import (")
		p.ind++
		for _, im := range pr.Imports {
			if im.Alias != "" {
				p.line(im.Alias + " " + Quote(im.Path))
			} else {
				p.line(Quote(im.Path))
			}
		}
		p.ind--
		p.line(")")
	}
	for _, s := range pr.Stmts {
		p.stmt(s)
	}
	return p.b.String()
}

// Package tsparse reads TypeShell source text into the reference model's AST (tsmodel). It is written
// against the language description (README) and the reference lexer (reflex) only; nothing here imports
// the repository's code. The checks use it to write statement alphabets and program corpora as text.
//
// It accepts the part of the language the model interprets: no command calls (@prog), no pipes. Input it
// cannot read is an error, never a guess. Round trip: for every program p the generators build,
// Parse(PrintProg(p)) == p (asserted by the checks that use this package, see RoundTrip).
package tsparse

import (
	"fmt"
	"reflect"
	"strconv"

	"verif/reflex"
	. "verif/tsmodel"
)

type parser struct {
	toks []reflex.Lexeme
	i    int
}

type perr struct{ msg string }

func (p *parser) fail(f string, a ...interface{}) {
	where := "end of input"
	if p.i < len(p.toks) {
		t := p.toks[p.i]
		where = fmt.Sprintf("%d:%d %q", t.Row, t.Col, t.Text)
	}
	panic(perr{fmt.Sprintf(f, a...) + " at " + where})
}

func (p *parser) peek() reflex.Lexeme {
	if p.i < len(p.toks) {
		return p.toks[p.i]
	}
	return reflex.Lexeme{Type: reflex.EOF}
}
func (p *parser) peekAt(k int) reflex.Lexeme {
	if p.i+k < len(p.toks) {
		return p.toks[p.i+k]
	}
	return reflex.Lexeme{Type: reflex.EOF}
}
func (p *parser) next() reflex.Lexeme { t := p.peek(); p.i++; return t }
func (p *parser) is(t reflex.Type) bool { return p.peek().Type == t }
func (p *parser) isText(t reflex.Type, s string) bool {
	return p.peek().Type == t && p.peek().Text == s
}
func (p *parser) want(t reflex.Type) reflex.Lexeme {
	if !p.is(t) {
		p.fail("expected %s", t)
	}
	return p.next()
}
func (p *parser) skipNL() {
	for p.is(reflex.Newline) {
		p.i++
	}
}
func (p *parser) endStmt() {
	if p.is(reflex.Newline) {
		p.i++
		return
	}
	if p.is(reflex.EOF) || p.is(reflex.ClosingCurlyBracket) {
		return
	}
	p.fail("expected end of statement")
}

// Parse reads a whole program.
func Parse(src string) (prog *Prog, err error) {
	lx := reflex.Lex(src)
	if lx.Err != "" {
		return nil, fmt.Errorf("lexical error: %s", lx.Err)
	}
	if !lx.OnlyUnspec(reflex.UMinusDigitAfterOperand) {
		return nil, fmt.Errorf("tokenisation unspecified: %v", lx.Unspec)
	}
	p := &parser{toks: lx.Tokens()}
	defer func() {
		if r := recover(); r != nil {
			if e, ok := r.(perr); ok {
				prog, err = nil, fmt.Errorf("%s", e.msg)
				return
			}
			panic(r)
		}
	}()
	pr := &Prog{}
	p.skipNL()
	for p.is(reflex.Import) {
		p.next()
		if p.is(reflex.OpeningRoundBracket) {
			p.next()
			p.skipNL()
			for !p.is(reflex.ClosingRoundBracket) {
				pr.Imports = append(pr.Imports, p.importEntry())
				p.skipNL()
			}
			p.next()
		} else {
			pr.Imports = append(pr.Imports, p.importEntry())
		}
		p.endStmt()
		p.skipNL()
	}
	pr.Stmts = p.stmts(func() bool { return p.is(reflex.EOF) })
	return pr, nil
}

// MustStmts parses a statement list (helper for alphabets written as text).
func MustStmts(src string) []Stmt {
	pr, err := Parse(src)
	if err != nil {
		panic("tsparse.MustStmts: " + err.Error() + "\n" + src)
	}
	if len(pr.Imports) > 0 {
		panic("tsparse.MustStmts: imports in a statement list")
	}
	return pr.Stmts
}

// MustProg parses a program.
func MustProg(src string) *Prog {
	pr, err := Parse(src)
	if err != nil {
		panic("tsparse.MustProg: " + err.Error() + "\n" + src)
	}
	return pr
}

// RoundTrip reports whether printing p and reading the text back yields p again.
func RoundTrip(p *Prog) error {
	src := PrintProg(*p)
	q, err := Parse(src)
	if err != nil {
		return fmt.Errorf("%v\n%s", err, src)
	}
	if PrintProg(*q) != src || normProg(*p) != normProg(*q) {
		return fmt.Errorf("AST differs after print+parse:\n%s\n--- reprinted ---\n%s", src, PrintProg(*q))
	}
	return nil
}

// normProg: two ASTs are taken as equal iff they print alike AND have the same node structure; the structure is
// compared on a dump that ignores nil-versus-empty slices and Group nodes (explicit parentheses, which are
// compared through the printed text).
func normProg(p Prog) string { return dump(reflect.ValueOf(p)) }

func dump(v reflect.Value) string {
	switch v.Kind() {
	case reflect.Interface, reflect.Ptr:
		if v.IsNil() {
			return "nil"
		}
		return dump(v.Elem())
	case reflect.Slice:
		s := "["
		for i := 0; i < v.Len(); i++ {
			s += dump(v.Index(i)) + ","
		}
		return s + "]"
	case reflect.Struct:
		if v.Type().Name() == "Group" { // the printer writes the parentheses a tree needs itself; a Group node only records explicit ones
			return dump(v.Field(0))
		}
		s := v.Type().Name() + "{"
		for i := 0; i < v.NumField(); i++ {
			if v.Type().Name() == "For" && v.Type().Field(i).Name == "Three" {
				continue // a spelling flag that only matters without init and post; compared through the printed text
			}
			s += v.Type().Field(i).Name + ":" + dump(v.Field(i)) + ";"
		}
		return s + "}"
	}
	return fmt.Sprintf("%v", v.Interface())
}

func (p *parser) importEntry() Import {
	im := Import{}
	if p.is(reflex.Identifier) {
		im.Alias = p.next().Text
	}
	im.Path = p.want(reflex.StringLiteral).Value
	return im
}

func (p *parser) stmts(end func() bool) []Stmt {
	var out []Stmt
	p.skipNL()
	for !end() {
		if p.is(reflex.EOF) {
			p.fail("unexpected end")
		}
		out = append(out, p.stmt())
		p.skipNL()
	}
	return out
}

func (p *parser) block() []Stmt {
	p.want(reflex.OpeningCurlyBracket)
	b := p.stmts(func() bool { return p.is(reflex.ClosingCurlyBracket) })
	p.next()
	return b
}

func (p *parser) typ() Type {
	t := Type{}
	if p.is(reflex.OpeningSquareBracket) {
		p.next()
		p.want(reflex.ClosingSquareBracket)
		t.Slice = true
	}
	t.Base = p.want(reflex.DataType).Text
	return t
}

func (p *parser) stmt() Stmt {
	switch p.peek().Type {
	case reflex.FunctionDefinition:
		p.next()
		f := FuncDef{Name: p.want(reflex.Identifier).Text}
		p.want(reflex.OpeningRoundBracket)
		for !p.is(reflex.ClosingRoundBracket) {
			n := p.want(reflex.Identifier).Text
			f.Params = append(f.Params, Param{Name: n, T: p.typ()})
			if p.is(reflex.Comma) {
				p.next()
			}
		}
		p.next()
		if p.is(reflex.OpeningRoundBracket) {
			p.next()
			for !p.is(reflex.ClosingRoundBracket) {
				f.Rets = append(f.Rets, p.typ())
				if p.is(reflex.Comma) {
					p.next()
				}
			}
			p.next()
		} else if !p.is(reflex.OpeningCurlyBracket) {
			f.Rets = []Type{p.typ()}
		}
		f.Body = p.block()
		p.endStmt()
		return f
	case reflex.If:
		s := p.ifStmt()
		p.endStmt()
		return s
	case reflex.Switch:
		p.next()
		sw := Switch{}
		if !p.is(reflex.OpeningCurlyBracket) {
			sw.Tag = p.expr()
		}
		p.want(reflex.OpeningCurlyBracket)
		p.skipNL()
		for !p.is(reflex.ClosingCurlyBracket) {
			c := Case{}
			if p.is(reflex.Default) {
				p.next()
				c.Default = true
			} else {
				p.want(reflex.Case)
				c.Val = p.expr()
			}
			p.want(reflex.Colon)
			c.Body = p.stmts(func() bool {
				return p.is(reflex.Case) || p.is(reflex.Default) || p.is(reflex.ClosingCurlyBracket)
			})
			sw.Cases = append(sw.Cases, c)
		}
		p.next()
		p.endStmt()
		return sw
	case reflex.For:
		s := p.forStmt()
		p.endStmt()
		return s
	}
	s := p.simple()
	p.endStmt()
	return s
}

func (p *parser) ifStmt() Stmt {
	p.want(reflex.If)
	s := If{Cond: p.expr()}
	s.Then = p.block()
	for p.is(reflex.Else) {
		p.next()
		if p.is(reflex.If) {
			p.next()
			ei := ElseIf{Cond: p.expr()}
			ei.Body = p.block()
			s.Elifs = append(s.Elifs, ei)
			continue
		}
		s.HasElse = true
		s.Else = p.block()
		break
	}
	return s
}

func (p *parser) forStmt() Stmt {
	p.want(reflex.For)
	if p.is(reflex.OpeningCurlyBracket) {
		return For{Body: p.block()}
	}
	// look ahead on the header line: a range keyword or a semicolon at bracket depth 0 decides the form
	depth, hasRange, hasSemi := 0, false, false
	for k := 0; ; k++ {
		t := p.peekAt(k)
		if t.Type == reflex.Newline || t.Type == reflex.EOF {
			break
		}
		switch t.Type {
		case reflex.OpeningRoundBracket, reflex.OpeningSquareBracket:
			depth++
		case reflex.ClosingRoundBracket, reflex.ClosingSquareBracket:
			depth--
		case reflex.Range:
			hasRange = true
		case reflex.Semicolon:
			if depth == 0 {
				hasSemi = true
			}
		}
	}
	switch {
	case hasRange:
		fr := ForRange{I: p.identOrBlank()}
		if p.is(reflex.Comma) {
			p.next()
			fr.V = p.identOrBlank()
		}
		p.want(reflex.ShortInitOperator)
		p.want(reflex.Range)
		fr.X = p.expr()
		fr.Body = p.block()
		return fr
	case hasSemi:
		f := For{}
		if !p.is(reflex.Semicolon) {
			f.Init = p.simple()
		}
		p.want(reflex.Semicolon)
		if !p.is(reflex.Semicolon) {
			f.Cond = p.expr()
		}
		p.want(reflex.Semicolon)
		if !p.is(reflex.OpeningCurlyBracket) {
			f.Post = p.simple()
		}
		if f.Init == nil && f.Post == nil {
			f.Three = true
		}
		f.Body = p.block()
		return f
	}
	f := For{Cond: p.expr()}
	f.Body = p.block()
	return f
}

func (p *parser) identOrBlank() string { return p.want(reflex.Identifier).Text }

func (p *parser) exprList() []Expr {
	es := []Expr{p.expr()}
	for p.is(reflex.Comma) {
		p.next()
		es = append(es, p.expr())
	}
	return es
}

func names(es []Expr, p *parser) []string {
	var out []string
	for _, e := range es {
		v, ok := e.(Var)
		if !ok {
			p.fail("a name list is expected on the left-hand side")
		}
		out = append(out, v.Name)
	}
	return out
}

func (p *parser) simple() Stmt {
	switch p.peek().Type {
	case reflex.VarDefinition:
		p.next()
		d := Define{Names: []string{p.want(reflex.Identifier).Text}}
		for p.is(reflex.Comma) {
			p.next()
			d.Names = append(d.Names, p.want(reflex.Identifier).Text)
		}
		hasT := false
		if p.is(reflex.DataType) || p.is(reflex.OpeningSquareBracket) {
			d.T, hasT = p.typ(), true
		}
		if p.is(reflex.AssignOperator) {
			p.next()
			d.Vals = p.exprList()
			if hasT {
				d.Form = DefVarTypeIn
			} else {
				d.Form = DefVarInit
			}
		} else {
			if !hasT {
				p.fail("var without type or value")
			}
			d.Form = DefVarType
		}
		return d
	case reflex.Return:
		p.next()
		r := Return{}
		if !p.is(reflex.Newline) && !p.is(reflex.ClosingCurlyBracket) && !p.is(reflex.EOF) {
			r.Vals = p.exprList()
		}
		return r
	case reflex.Break:
		p.next()
		return Break{}
	case reflex.Continue:
		p.next()
		return Continue{}
	case reflex.Print:
		p.next()
		return Print{Args: p.args()}
	case reflex.Panic:
		p.next()
		a := p.args()
		if len(a) != 1 {
			p.fail("panic takes one argument")
		}
		return Panic{X: a[0]}
	case reflex.Write:
		p.next()
		a := p.args()
		if len(a) != 2 && len(a) != 3 {
			p.fail("write takes two or three arguments")
		}
		w := Write{Path: a[0], Data: a[1]}
		if len(a) == 3 {
			w.Append = a[2]
		}
		return w
	}
	lhs := p.exprList()
	switch p.peek().Type {
	case reflex.ShortInitOperator:
		p.next()
		return Define{Names: names(lhs, p), Form: DefShort, Vals: p.exprList()}
	case reflex.AssignOperator:
		p.next()
		if len(lhs) == 1 {
			if ix, ok := lhs[0].(Index); ok {
				v, ok := ix.X.(Var)
				if !ok {
					p.fail("element assignment needs a named slice")
				}
				return SliceSet{Name: v.Name, I: ix.I, Val: p.expr()}
			}
		}
		return Assign{Names: names(lhs, p), Vals: p.exprList()}
	case reflex.CompoundAssignOperator:
		op := p.next().Text
		n := names(lhs, p)
		if len(n) != 1 {
			p.fail("compound assignment to several names")
		}
		return OpAssign{Name: n[0], Op: op[:1], Val: p.expr()}
	case reflex.IncrementOperator, reflex.DecrementOperator:
		t := p.next()
		n := names(lhs, p)
		if len(n) != 1 {
			p.fail("++/-- on several names")
		}
		return IncDec{Name: n[0], Inc: t.Type == reflex.IncrementOperator}
	}
	if len(lhs) != 1 {
		p.fail("expression list as a statement")
	}
	return ExprStmt{X: lhs[0]}
}

func (p *parser) args() []Expr {
	p.want(reflex.OpeningRoundBracket)
	var out []Expr
	for !p.is(reflex.ClosingRoundBracket) {
		out = append(out, p.expr())
		if p.is(reflex.Comma) {
			p.next()
		} else if !p.is(reflex.ClosingRoundBracket) {
			p.fail("expected , or )")
		}
	}
	p.next()
	return out
}

func (p *parser) expr() Expr { return p.binary(1) }

func (p *parser) binOp() (string, bool) {
	t := p.peek()
	switch t.Type {
	case reflex.BinaryOperator, reflex.CompareOperator, reflex.LogicalOperator:
		return t.Text, true
	}
	return "", false
}

func (p *parser) binary(min int) Expr {
	l := p.unary()
	for {
		// a number token that starts with '-' directly after an operand is a subtraction (Go's reading)
		if t := p.peek(); t.Type == reflex.NumberLiteral && len(t.Text) > 1 && t.Text[0] == '-' && Prec("-") >= min {
			p.next()
			v, err := strconv.ParseInt(t.Text[1:], 10, 64)
			if err != nil {
				p.fail("integer literal out of range")
			}
			var r Expr = IntLit{V: v}
			r = p.continueHigher(r, Prec("-")+1)
			l = Binary{Op: "-", L: l, R: r}
			continue
		}
		op, ok := p.binOp()
		if !ok || Prec(op) < min {
			return l
		}
		p.next()
		r := p.binary(Prec(op) + 1)
		l = Binary{Op: op, L: l, R: r}
	}
}

// continueHigher extends an already parsed left operand with operators of precedence >= min.
func (p *parser) continueHigher(l Expr, min int) Expr {
	for {
		op, ok := p.binOp()
		if !ok || Prec(op) < min {
			return l
		}
		p.next()
		r := p.binary(Prec(op) + 1)
		l = Binary{Op: op, L: l, R: r}
	}
}

func (p *parser) unary() Expr {
	if p.is(reflex.UnaryOperator) {
		p.next()
		return Unary{Op: "!", X: p.unary()}
	}
	return p.postfix(p.primary())
}

func (p *parser) postfix(e Expr) Expr {
	for p.is(reflex.OpeningSquareBracket) {
		p.next()
		var lo, hi Expr
		if p.is(reflex.Colon) {
			p.next()
			if !p.is(reflex.ClosingSquareBracket) {
				hi = p.expr()
			}
			p.want(reflex.ClosingSquareBracket)
			e = Substr{X: e, Lo: nil, Hi: hi}
			continue
		}
		lo = p.expr()
		if p.is(reflex.Colon) {
			p.next()
			if !p.is(reflex.ClosingSquareBracket) {
				hi = p.expr()
			}
			p.want(reflex.ClosingSquareBracket)
			e = Substr{X: e, Lo: lo, Hi: hi}
			continue
		}
		p.want(reflex.ClosingSquareBracket)
		e = Index{X: e, I: lo}
	}
	return e
}

func (p *parser) primary() Expr {
	t := p.next()
	switch t.Type {
	case reflex.NumberLiteral:
		v, err := strconv.ParseInt(t.Text, 10, 64)
		if err != nil {
			p.i--
			p.fail("integer literal out of range")
		}
		return IntLit{V: v}
	case reflex.BoolLiteral:
		return BoolLit{V: t.Text == "true"}
	case reflex.StringLiteral:
		return StrLit{V: t.Value, Raw: len(t.Text) > 0 && t.Text[0] == '`'}
	case reflex.NilLiteral:
		return NilLit{}
	case reflex.OpeningRoundBracket:
		e := p.expr()
		p.want(reflex.ClosingRoundBracket)
		return Group{X: e}
	case reflex.OpeningSquareBracket:
		p.want(reflex.ClosingSquareBracket)
		sl := SliceLit{Elem: Type{Base: p.want(reflex.DataType).Text}}
		p.want(reflex.OpeningCurlyBracket)
		for !p.is(reflex.ClosingCurlyBracket) {
			sl.Elems = append(sl.Elems, p.expr())
			if p.is(reflex.Comma) {
				p.next()
			} else if !p.is(reflex.ClosingCurlyBracket) {
				p.fail("expected , or }")
			}
		}
		p.next()
		return sl
	case reflex.Len:
		return Len{X: p.one("len")}
	case reflex.Itoa:
		return Itoa{X: p.one("itoa")}
	case reflex.Read:
		return ReadE{Path: p.one("read")}
	case reflex.Exists:
		return ExistsE{Path: p.one("exists")}
	case reflex.Input:
		a := p.args()
		if len(a) > 1 {
			p.fail("input takes at most one argument")
		}
		if len(a) == 1 {
			return InputE{Prompt: a[0]}
		}
		return InputE{}
	case reflex.Copy:
		a := p.args()
		if len(a) != 2 {
			p.fail("copy takes two arguments")
		}
		d, ok := a[0].(Var)
		if !ok {
			p.fail("copy needs a named destination")
		}
		return CopyE{Dst: d.Name, Src: a[1]}
	case reflex.Identifier:
		if p.is(reflex.Dot) {
			p.next()
			fn := p.want(reflex.Identifier).Text
			return Call{Alias: t.Text, Fn: fn, Args: p.args()}
		}
		if p.is(reflex.OpeningRoundBracket) {
			return Call{Fn: t.Text, Args: p.args()}
		}
		return Var{Name: t.Text}
	}
	p.i--
	p.fail("unexpected token in an expression")
	return nil
}

func (p *parser) one(name string) Expr {
	a := p.args()
	if len(a) != 1 {
		p.fail("%s takes one argument", name)
	}
	return a[0]
}

# sourced by setup.sh and run.sh
export VERIF_ROOT="$(cd "$(dirname "${BASH_SOURCE[0]}")" && pwd)"
export GOFLAGS=-mod=mod GOPROXY=off GOSUMDB=off GOTOOLCHAIN=local
export GOCACHE="$VERIF_ROOT/.cache/go-build"
export CGO_ENABLED=0
mkdir -p "$VERIF_ROOT/.cache" "$VERIF_ROOT/bin" "$VERIF_ROOT/evidence"

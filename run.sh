#!/bin/bash
# usage: run.sh <Cxx> <quick|thorough>     |  run.sh replay <dir>
. "$(dirname "$0")/env.sh"
if [ "$1" = "replay" ]; then
  exec bash "$2/replay.sh"
fi
if ! out=$("$VERIF_ROOT/build.sh" 2>&1); then
  # /repo no longer builds: nothing can be decided; this is a harness error, not a verdict
  echo "BUILD FAILED against /repo working tree:" >&2; echo "$out" >&2; exit 2
fi
export VERIF_TIER="${2:-quick}"
exec "$VERIF_ROOT/bin/vcheck" "$1"

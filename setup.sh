#!/bin/bash
# MANIFEST.setup_cmd: build the engine offline and warm the build cache.
set -e
. "$(dirname "$0")/env.sh"
"$VERIF_ROOT/build.sh"
# warm the cache for the race-detector build of the command (C19 family R); not fatal where cgo is unavailable
( cd "${VERIF_REPO:-/repo}" && CGO_ENABLED=1 go build -race -o "$VERIF_ROOT/.cache/tsh-race-warm" . 2>/dev/null && rm -f "$VERIF_ROOT/.cache/tsh-race-warm" ) || echo "note: race-detector build not available here (C19 family R will be skipped and counted)"
echo "setup ok: $("$VERIF_ROOT/bin/vcheck" 2>&1 | head -1)"

#!/bin/bash
# MANIFEST.setup_cmd: build the engine offline and warm the build cache.
set -e
. "$(dirname "$0")/env.sh"
"$VERIF_ROOT/build.sh"
echo "setup ok: $("$VERIF_ROOT/bin/vcheck" 2>&1 | head -1)"

#!/usr/bin/env python3
"""merge_known.py <Cxx> <check-output> [proposed-file]: prints known: lines for every VIOLATION key of a run,
taking the description from the proposed file when it has the key, else from the VIOLATION line itself."""
import sys,re
prop,out=sys.argv[1],sys.argv[2]
proposed={}
if len(sys.argv)>3:
    for l in open(sys.argv[3]):
        l=l.strip()
        l=re.sub(r'^#\s*after-fix:\s*','',l)
        m=re.match(r'known:\s+property=(\S+)\s+key=(.*?)\s+::\s+(.*)$',l)
        if m: proposed[m.group(2)]=m.group(3)
seen=set()
for l in open(out):
    m=re.match(r'VIOLATION property=(\S+) replay=\S+ key=(.*?) :: (.*)$',l.rstrip('\n'))
    if not m or m.group(1)!=prop: continue
    k=m.group(2)
    if k in seen: continue
    seen.add(k)
    desc=proposed.get(k, m.group(3))
    print(f"known: property={prop} key={k} :: {desc[:600]}")

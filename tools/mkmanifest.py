#!/usr/bin/env python3
"""Regenerates /verif/MANIFEST.json from the table below (single source of truth for claims)."""
import json, os
ROOT=os.path.dirname(os.path.dirname(os.path.abspath(__file__)))
props=[json.loads(l) for l in open(os.path.join(ROOT,'properties.jsonl'))]
EXPL="exploration"; MC="model_checking"
TB_MODEL="Trusted: the reference interpreter tsmodel (Go's meaning + the README's documented deviations), written independently of the repository code; /bin/bash of the sandbox; small-scope hypothesis beyond the stated bounds."
claimed={
 "C01":(EXPL,"Bounded-exhaustive exploration of the real pipeline (real transpiler linked from /repo's working tree, real /bin/bash) against an independent reference interpreter: every well-typed expression tree up to the stated operator count under boundary valuations (incl. int64 extremes), and every control-flow skeleton up to the stated construct count/depth. No program within the bounds misbehaves; nothing is claimed beyond them.","§2 C01",TB_MODEL+" Strings are shell-neutral here (C08 covers content).","bounded-exhaustive enumeration of programs (expression trees x valuations; control skeletons) run on the real implementation and compared with a reference interpreter"),
 "C02":(EXPL,"Every program built from small function specs (parameter lists over a two-name pool, return arity, locals, write form, call form into earlier functions) with globals placed before/between/after the functions so that names collide, executed by the real bash and compared with the reference interpreter's lexical frames.","§2 C02",TB_MODEL,"bounded-exhaustive enumeration of function programs with forced name collisions, run on the real implementation, compared with a reference interpreter"),
 "C03":(MC,"Explicit-state search over the abstract heap of two aliased slice variables: all operation histories up to a depth, then breadth-first search with state merging; every transition is replayed as a program on the real transpiler+bash with the full heap printed after every step, and compared with the reference model. Plus exhaustive index sweeps for strings (all in-range (a,b) pairs per length) and element-wise slice growth.","§2 C03",TB_MODEL+" State merging assumes equal abstract heaps have equal futures in the implementation; the all-paths tier does not.","explicit-state (BFS) search over operation histories with every model trace replayed on the implementation"),
 "C04":(EXPL,"Complete table of statement kinds x operand slots x enclosing contexts, every non-empty subset of slots carrying a tracer; the printed effect trace of the real bash run must equal the reference interpreter's (order, multiplicity, eager conditions, loop-condition timing).","§2 C04",TB_MODEL+" Switch tags and range operands carry no tracer (unspecified by the property).","exhaustive enumeration of tracer placements over a statement/slot/context table, executed on the real implementation"),
 "C05":(EXPL,"The C01-C04 program enumerators at reduced bounds with 32-bit values: each program is transpiled to Batch by the real transpiler and executed under an executable model of cmd.exe's documented rules (no cmd.exe exists in the sandbox); the model is calibrated on every run against the Windows half of the repository's own suite (161 expectations) before any generated program is judged. Runs the model refuses to decide are counted as unmodelled, never judged.","§2 C05, Appendix A","Trusted base: engine/cmdmodel (~2900 lines Go) = cmd.exe's documented rules; calibration corpus = repository's Windows tests (known to pass on upstream's Windows CI); reference interpreter at 32 bits.","bounded-exhaustive enumeration of programs executed under a calibrated executable model of cmd.exe and compared with a reference interpreter"),
 "C06":(EXPL,"Complete enumeration of the typing table: every typed position of the grammar x every offered expression (27 spellings over the 8 offered types) x every enclosing context, decided against Go's typing rules / the README's builtin signatures; both targets must reject ill-typed and accept well-typed programs identically.","§2 C06","Trusted: the per-position accept sets written from Go's rules and the README signatures (engine/checks/c06.go); pairs the property leaves unspecified are skipped and counted.","exhaustive enumeration of a (position x offered type x context) table against an independent typing oracle, both targets"),
 "C07":(EXPL,"Every block-structure skeleton up to n items / depth 3 over definitions, uses, loops, switches, functions, calls, break/continue/return placements; an independent scoper decides accept/reject/unspecified from the rules the property states; both targets must agree, and accepted programs are also executed against the reference interpreter (a scope hole shows as a stale value). Plus a two-file import-boundary table.","§2 C07",TB_MODEL+" The scoper (engine/checks/c07.go) is three-valued: cases the property does not decide are skipped and counted.","bounded-exhaustive enumeration of scope skeletons against an independent scoping oracle, plus execution of the accepted ones"),
}
m={
 "version":1,
 "setup_cmd":"./setup.sh",
 "hooks":{"guard":"verif","enable":"no source hooks in /repo: checks link /repo's working tree through a go.mod replace and use go build -overlay files generated at check time from the current tree; build tag 'verif' is reserved","baseline_off_cmd":"cd /repo && GOFLAGS=-mod=mod GOPROXY=off GOSUMDB=off GOTOOLCHAIN=local go test -vet=off -count=1 ./...","source_commits":[],"add_only":True},
 "engines":[{"name":"vcheck","path":"engine","serves_properties":[],"kind_free_text":"hand-written bounded-exhaustive explorer in Go: enumerators over program/input/history spaces, reference model (tsmodel), executable cmd.exe model (cmdmodel), drivers for the real transpiler (linked from /repo) and the real /bin/bash"}],
 "checks":[],
 "not_applicable":[],
 "notes":"See DESIGN.md. Known findings: KNOWN_FINDINGS.txt (known:/fixed: lines). Replay artefacts: replays/<id>/<hash>/replay.sh. Mutant demonstrations: mutants/, seeded/."
}
for p in props:
    pid=p['id']
    if pid in claimed:
        level,text,design,note,tech=claimed[pid]
        m["checks"].append({"property_id":pid,"quick_cmd":f"./run.sh {pid} quick","thorough_cmd":f"./run.sh {pid} thorough","evidence_file":f"/verif/evidence/{pid}.json","replay_cmd_template":"./run.sh replay {path}","engine":"vcheck","level_claimed":{"category":level,"text":text,"design_ref":"DESIGN.md "+design},"level_note":note,"technique":tech})
        m["engines"][0]["serves_properties"].append(pid)
    else:
        m["not_applicable"].append({"property_id":pid,"reason":"check not built yet (work in progress; see DESIGN.md §8 for the order of work)"})
json.dump(m,open(os.path.join(ROOT,'MANIFEST.json'),'w'),indent=1)
print("claimed:",[c["property_id"] for c in m["checks"]])

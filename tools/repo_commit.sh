#!/bin/bash
# usage: repo_commit.sh <message-file>   — builds /repo, runs its suite, commits only if everything is green
set -euo pipefail
export GOFLAGS=-mod=mod GOPROXY=off GOSUMDB=off GOTOOLCHAIN=local
cd /repo
go build ./...
out=$(go test -vet=off -count=1 ./... 2>&1) || { echo "$out" | grep -E -- "--- FAIL|Error:|FAIL" | head -20; echo "SUITE FAILED - not committed"; exit 1; }
echo "$out" | grep -q "^ok" || { echo "no ok line"; exit 1; }
git commit -qa -F "$1"
git log -1 --oneline

#!/bin/bash
# usage: tools/run_all.sh [quick|thorough] [ids...]  — runs checks one after the other, prints one summary line each
cd "$(dirname "$0")/.."
tier=${1:-quick}; shift || true
ids=${@:-$(python3 -c "import json;print(' '.join(c['property_id'] for c in json.load(open('MANIFEST.json'))['checks']))")}
for id in $ids; do
  mkdir -p .cache/out
  s=$(date +%s); out=$(./run.sh $id $tier 2>&1); st=$?; e=$(date +%s)
  printf '%s\n' "$out" > .cache/out/$id.$tier.out   # kept for tools/stale_known.py
  echo "$id exit=$st $((e-s))s viol=$(echo "$out" | grep -c '^VIOLATION') known=$(echo "$out" | grep -c '^KNOWN-FINDING') :: $(echo "$out" | tail -1 | cut -c1-160)"
  [ $st -ne 0 ] && echo "$out" | grep '^VIOLATION' | head -5 | cut -c1-300
done

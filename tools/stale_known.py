#!/usr/bin/env python3
"""usage: tools/stale_known.py <check-output>...   — lists the known: lines whose key no KNOWN-FINDING line of the given
check outputs (one per property, e.g. from tools/run_all.sh with outputs kept) carries. A listed key that is never
reproduced suppresses a regression silently; each one printed here needs a reason to stay."""
import re, sys, os
root = os.path.dirname(os.path.dirname(os.path.abspath(__file__)))
hit = {}
for f in sys.argv[1:]:
    for m in re.finditer(r'^KNOWN-FINDING: property=(C\d\d) .*\[key=(.*)\]$', open(f, errors='replace').read(), re.M):
        hit.setdefault(m.group(1), set()).add(m.group(2))
for l in open(os.path.join(root, 'KNOWN_FINDINGS.txt')):
    if not l.startswith('known: property='):
        continue
    prop = l[len('known: property='):][:3]
    key = l.split(' key=', 1)[1].split(' :: ')[0]
    if prop in hit and key not in hit[prop]:
        print(prop, key)

#!/bin/bash
# validates MANIFEST.json and every evidence file against the harness schemas
cd "$(dirname "$0")"
python3-vt - <<'PY'
import json, jsonschema, glob, sys
ok=True
m=json.load(open('MANIFEST.json'))
jsonschema.validate(m, json.load(open('/root/.vp/MANIFEST.schema.json')))
print("MANIFEST ok:", len(m['checks']), "checks,", len(m.get('not_applicable',[])), "not applicable")
es=json.load(open('/root/.vp/EVIDENCE.schema.json'))
for f in sorted(glob.glob('evidence/*.json')):
    try:
        jsonschema.validate(json.load(open(f)), es); print("ok", f)
    except Exception as e:
        ok=False; print("INVALID", f, str(e)[:300])
ids={c['property_id'] for c in m['checks']}|{c['property_id'] for c in m.get('not_applicable',[])}
allp=[json.loads(l)['id'] for l in open('properties.jsonl')]
missing=[p for p in allp if p not in ids]
if missing: print("properties neither claimed nor not_applicable:", missing); ok=False
sys.exit(0 if ok else 1)
PY
